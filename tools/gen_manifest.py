#!/usr/bin/env python3
"""Regenerates /verif/MANIFEST.json from the table below (kept in one place so the manifest is
always schema-valid and consistent with the harness modules that exist)."""
import json
import os

V = os.path.dirname(os.path.dirname(os.path.abspath(__file__)))

TRUST = ("CrossHair 0.0.110's models of Python builtins and z3; the harness stubs listed in the evidence file; "
         "bounds as stated per lemma in the evidence file; a CONFIRMED lemma is a bounded result, not a proof.")

CHECKS = {
    "C10": dict(
        text="Bounded symbolic execution (CrossHair+z3) of the real Severity operators, AnalysisResults, check_safety, "
             "is_likely_safe, loader.load and cli.main --check-safety with the rule set replaced by a stub that yields a "
             "solver-chosen list of severities; all 36 severity pairs and all finding lists up to the stated length are covered "
             "with an exhaustiveness certificate (Confirmed over all paths).",
        technique="CrossHair symbolic execution + z3; stub rule yields solver-chosen severities; native replay",
        design="§4 C10"),
}

CHECKS["C06"] = dict(
    text="Bounded symbolic execution of the real Pickled.load/dumps/dump, Opcode construction and StackedPickle.load over "
         "`prefix|code|arg|STOP|tail` inputs: for every opcode of pickletools.opcodes the fixed-width argument bytes, length fields, "
         "raw payloads (<=3 bytes), trailing bytes (<=2) and skipped prefix are solver variables; each family lemma is "
         "Confirmed over all paths, so the byte-exact round trip and stream position hold for every argument value within those sizes.",
    technique="CrossHair symbolic execution + z3 over symbolic opcode arguments/tails; per-encoding-family lemmas; native replay",
    design="§4 C06")

CHECKS["C09"] = dict(
    text="Inductive step lemma per opcode, discharged by CrossHair+z3 on the real Interpreter.step()/Opcode.run and the real "
         "pickle._Unpickler.load_*: the pre-state is a hidden stack prefix of symbolic (unbounded) depth, a window of <=3 slots with "
         "solver-chosen mark flags and kinds, and a hidden memo of symbolic size with oracle membership; post: same window mark layout "
         "and same memo key writes. A Confirmed lemma for every opcode covers, by induction over the program, every prefix of every "
         "program whose operand accesses stay inside the window. Tracing passivity is checked on a per-opcode program set. Memos with gaps and collisions (an explicit PUT-family write between MEMOIZEs, key 0..40) are cross-checked on whole programs in lockstep with the VM.",
    technique="CrossHair+z3 inductive step lemmas (hidden-prefix stack, oracle memo) vs pickle._Unpickler; program-level native replay",
    design="§1.3, §4 C09")

CHECKS["C15"] = dict(
    text="Bounded symbolic execution of the real ConstantOpcode.new priority search, every validate/encode_body, "
         "_encode_python_obj and the injection helpers, read back by CPython's pure-Python unpickler and pickletools.genops: "
         "every int (unbounded; decimal rendering cut and checked on samples), every bytes of length <=3, lengths 250..260 across the "
         "1-byte/4-byte switch, every constructible opcode class with symbolic integer arguments are Confirmed over all paths; "
         "str of length <=1 (quick) / <=2 (thorough) is a solver search that is not expected to exhaust; text classes, floats, "
         "containers are pinned samples.",
    technique="CrossHair+z3 over symbolic constants (ints unbounded, bytes<=3) with VM/genops read-back; known-findings list for recorded encoder defects",
    design="§4 C15")

CHECKS["C02"] = dict(
    text="Bounded symbolic execution of the real loader.load / run_hook / FicklingContextManager / check_safety / "
         "AnalysisResults / Severity.__le__ with the rule set stubbed to return a solver-chosen list of severities or to raise, "
         "pickle.loads/load replaced by spies and an adversarial stream rewritten at analysis time: for every verdict (<=2 findings), "
         "all six thresholds, every payload byte and rewrite byte, 3 armings x 3 stream kinds, each gate lemma is Confirmed over all "
         "paths. A second lemma runs the real rules and the real unpickler on inert sink globals.",
    technique="CrossHair+z3 gate lemmas with stub verdict/fault, spy unpickler and TOCTOU stream; native replay",
    design="§4 C02")

CHECKS["C14"] = dict(
    text="Inductive lemma 'the cache is cold or coherent', one CrossHair lemma per mutator (every MutableSequence method and every "
         "injection helper): base program, cache state (cold / partly warm / fully warm), index and slice bounds in -n-2..n+2 and payload "
         "opcode are solver-partitioned with an exhaustiveness certificate; after the real mutator runs, every derived view (AST, "
         "summaries, has_*, unsafe/non-standard imports, severity, dumps) equals that of a fresh Pickled over the same opcodes, and again "
         "after a follow-up edit; every opcode class of OPCODES_BY_NAME is also used as inserted/replacing payload, and equal-comparing twins (True~1, -0.0~0.0) as replacements. Finite-state: the deciding step is the solver-certified exhaustive partition, the views run natively.",
    technique="CrossHair+z3 solver-partitioned exhaustive fan over (mutator, index, cache state), inductive cold-or-coherent invariant",
    design="§4 C14")

CHECKS["C18"] = dict(
    text="Bounded symbolic execution of the real cli.main (--inject with every flag combination, plain and --trace decompilation) on "
         "stacks of n<=3 pickles read from a pure-Python stdin: every pickle's payload byte is a solver variable, so 'all but the k-th "
         "are byte-identical' is Confirmed for all contents; target k ranges over 0..n including one past the end; decompiled output is "
         "parsed, checked for variable reuse across pickles and executed against inert stubs vs the reference VM.",
    technique="CrossHair+z3 over symbolic payload bytes through cli.main; pinned n/target/flags; native replay",
    design="§4 C18")

CHECKS["C17"] = dict(
    text="Partial. (1) Decision table: the real identify_pytorch_file_format is executed symbolically with property discovery stubbed to "
         "11 symbolic booleans; Confirmed over all paths against the documented table and precedence (model.json-only row not asserted). "
         "(2) Hygiene: the real create_polyglot and constructors run on real scratch files with the identifier's answers (7x7, incl. "
         "'no format') and the index of one failing I/O call solver-partitioned; no temp_*/temp entry remains and the inputs are unchanged "
         "on every exit. Not covered: marker discovery in real archive bytes, agreement with torch's loader, identification of produced polyglots.",
    technique="CrossHair+z3: symbolic booleans through the real decision table; solver-partitioned fault/answer fan for temp-file hygiene",
    design="§4 C17",
    note="Partial scope: everything behind zipfile/tarfile/torch I/O is outside (C boundary realises symbolic content). " + TRUST)

CHECKS["C11"] = dict(
    text="Inductive lemma on the allowlist table plus bounded histories: from the pristine ML_ALLOWLIST one operation (construct an "
         "unpickler, activate+probe+reactivate, static analysis, two live instances) with additions from table-derived classes leaves the "
         "table deep-equal to its snapshot and gives each instance exactly base+additions; histories of <=3 (quick) / <=4 (thorough) "
         "operations over a 14-symbol alphabet are compared with the two-variable model. Finite-state: solver-certified exhaustive partition.",
    technique="CrossHair+z3 solver-partitioned exhaustive fan; inductive table-pristine lemma + bounded histories vs model",
    design="§4 C11")
CHECKS["C12"] = dict(
    text="Bounded histories (length <=4 quick / <=5 thorough, contexts nested <=3) over arm / activate / activate+additions / remove / "
         "enter / enter a pre-created manager / exit / exit-by-exception / probe load / probe loads on the real pickle and _pickle module attributes, checked after every "
         "step against an explicit lifecycle model (documented protection in force => flagged probe raises and its sink is silent; context "
         "exit restores the identical pickle.load binding and touches nothing else; after remove all four bindings are the originals). "
         "Finite-state: the solver certifies the partition of the history space exhaustive.",
    technique="CrossHair+z3 solver-partitioned exhaustive history enumeration vs explicit lifecycle model",
    design="§4 C12")

CHECKS["C04"] = dict(
    text="Solver-partitioned exhaustive exploration of labelled gadget programs through the real parser, interpreter and every rule of "
         "Analysis.ALL: vocabulary (modules, attribute names) is harvested from /repo's tables and literals on every run, crossed with "
         "every global-resolving opcode, memo round trips, every call-making opcode incl. a computed callee, nine fates of the call's "
         "value, protocol headers, surrounding benign data, argument lengths around the 32-character shortening boundary, pairs of "
         "gadgets, and one attribute name resolved from a benign and from a dangerous module; what a program does is read off the reference VM's event log and the floor is computed from that log. Finite product "
         "space; the deciding step is the solver's certificate that the partition is exhaustive (Confirmed over all paths).",
    technique="CrossHair+z3 solver-partitioned exhaustive fan over harvested vocabulary x opcode forms; floor from reference-VM event log",
    design="§4 C04")
CHECKS["C19"] = dict(
    text="Solver-partitioned exhaustive exploration of (module x attribute) over the vocabulary harvested from /repo on every run x "
         "resolve opcode x called-or-not x second import: whenever the program decompiles, check_safety returns, every finding has a "
         "Severity and a str message, the report is JSON-serialisable and loader.load's UnsafeFileError.info equals it.",
    technique="CrossHair+z3 solver-partitioned exhaustive fan over harvested vocabulary; totality oracle on the real analysis",
    design="§4 C19")

CHECKS["C13"] = dict(
    text="Solver-partitioned exhaustive exploration of (program x read-only query sequence of length <=3 quick / <=4 thorough over 13 "
         "queries): after every query the answer equals that of a fresh parse of the same bytes and dumps() is unchanged. Hash-seed "
         "independence is checked by spawning fresh interpreters under three PYTHONHASHSEED values and comparing answer digests; that "
         "part is not a solver claim and is reported separately in the evidence.",
    technique="CrossHair+z3 solver-partitioned exhaustive fan over query sequences vs fresh parse; subprocess digest diff for hash seeds",
    design="§4 C13",
    note="Partial: cross-process/hash-seed independence cannot be a solver variable (checked by digest comparison, stated as such). " + TRUST)

CHECKS["C03"] = dict(
    text="Lockstep refinement against the reference VM: programs = base | builder slot x memo | builder slot x memo | opcode under test "
         "(30 opcodes incl. every call-making one) | observer. Builder kinds (24 x 24) and base depth are solver-partitioned with an "
         "exhaustiveness certificate and the memo/observer choices enumerated inside each cell; a second family runs the same obligation "
         "from a hidden base whose depths are unbounded symbolic ints (real Interpreter.run and real pickle._Unpickler on hidden-prefix "
         "stacks). A third family resolves every module name of the vocabulary harvested from /repo (incl. sys.builtin_module_names) through every "
         "resolving opcode. Oracle: every import / invocation / setstate / persistent-id event of the VM occurs at least as often when the "
         "decompiled source is executed against the same inert stubs. Unsupported operations must be refused.",
    technique="CrossHair+z3: solver-partitioned program cells + hidden-base symbolic depths; reference-VM event log vs executed decompile",
    design="§4 C03/C05")
CHECKS["C05"] = dict(
    text="Same lockstep family as C03 with the value oracle (canonical result of the executed decompiled source equals the reference "
         "VM's, and the source must execute), plus plain data: 39 shapes (incl. shared containers beyond the pickler's batch size) x boundary leaves pickled by CPython's pickler at protocols "
         "0-5 must decompile and evaluate to an equal value of the same types. Recorded defects (FROZENSET text, same-name imports, no-op "
         "mutation of builtin values) are listed in known_findings.json and re-confirmed on every run.",
    technique="CrossHair+z3: solver-partitioned program cells + hidden-base symbolic depths; canonical value equality vs reference VM; plain-data round trip",
    design="§4 C03/C05")

CHECKS["C08"] = dict(
    text="Solver-partitioned exhaustive exploration of (base pickle x injection mode x argument): 82 bases (generated objects at "
         "protocols 0-5 incl. 300-entry memos; assembler programs that are headerless, have their own globals/calls/BUILD, sparse memo "
         "keys 1/2/321987, memo-length collisions, frames) x 15 modes (every helper and flag combination) x 8 arguments. The rewritten "
         "bytes are loaded by the accelerated unpickler and by the pure-Python one with inert logging stubs: event sequence = base's "
         "events with the injected call inserted exactly once with exactly the given arguments, result = base object or the call's "
         "value, VM stack empty at STOP, single trailing STOP, own safety check not LIKELY_SAFE.",
    technique="CrossHair+z3 solver-partitioned exhaustive fan over base x mode x argument; reference-VM event-sequence oracle (C and pure-Python unpicklers)",
    design="§4 C08")

CHECKS["C07"] = dict(
    text="Scope: pickle-module level. Solver-partitioned exhaustive exploration of (entry point x nesting depth 0..3 x loader stand-in "
         "per level) with additions and 11 innermost programs enumerated per cell, on the real activate_safe_ml_environment / "
         "FicklingMLUnpickler: every 'pickle.find_class' audit event between entry and exit of the outermost call is in allowlist+"
         "additions, the first outsider raises UnsafeFileError and the sink stays silent. Stand-ins model how bare / zip / legacy "
         "container readers reach the pickle module; the class-based path (legacy containers) is a recorded known finding. Real torch "
         "containers are outside (C++/zip I/O).",
    technique="CrossHair+z3 solver-partitioned fan over nesting/stand-ins; interpreter audit events (pickle.find_class) as the mediation monitor",
    design="§4 C07",
    note="Partial scope: no real torch containers. " + TRUST)

CHECKS["C01"] = dict(
    text="Effect monitor (CPython audit events + sys.meta_path recorder, attributed to fickling frames, self-tested on every run) around "
         "9 analysis entry points. Inputs: gadget programs naming dangerous and probe globals through every global-resolving and "
         "call-making opcode. Symbolic family: the int argument and up to 2 trailing bytes are solver variables through the real parser, "
         "interpreter, unparse and rules (Confirmed over all paths for parse/decompile/check_safety; reduced domains where an entry point "
         "prints the value). Mutation family: template x global solver-partitioned, with truncation at every byte position and byte-level "
         "corruptions enumerated per cell. Thorough adds one fully symbolic corrupted byte at each position.",
    technique="CrossHair+z3 symbolic execution of the analysis pipeline under an audit-event effect monitor; solver-partitioned truncation/corruption cells",
    design="§4 C01")

NOT_APPLICABLE = {
    "C16": "every observable sits behind zipfile/zlib/torch C-level I/O; symbolic inputs are realised at the first call so the solver has nothing to decide (DESIGN §5); the pickle-level half is covered by C08",
}

PENDING = "check not built yet in this round (DESIGN §4 has the plan); will be claimed once its harness exists"


def main():
    props = [json.loads(l)["id"] for l in open(os.path.join(V, "properties.jsonl"))]
    checks = []
    for pid in props:
        c = CHECKS.get(pid)
        if not c or not os.path.exists(os.path.join(V, "harness", pid.lower() + ".py")):
            continue
        checks.append({
            "property_id": pid,
            "quick_cmd": "bin/check %s quick" % pid,
            "thorough_cmd": "bin/check %s thorough" % pid,
            "evidence_file": "evidence/%s.json" % pid,
            "replay_cmd_template": "bin/replay {path}",
            "engine": "crosshair-z3",
            "level_claimed": {"category": "model_checking", "text": c["text"], "design_ref": c["design"]},
            "level_note": c.get("note", TRUST),
            "technique": c["technique"],
        })
    claimed = {c["property_id"] for c in checks}
    na = []
    for pid in props:
        if pid in claimed:
            continue
        na.append({"property_id": pid, "reason": NOT_APPLICABLE.get(pid, PENDING)})
    man = {
        "version": 1,
        "setup_cmd": "bin/ensure_env.sh",
        "hooks": {
            "guard": "FICKLING_VERIF",
            "enable": "no source hooks: all instrumentation is attribute replacement from the harness side (DESIGN §1.4); the variable is exported by bin/check for completeness",
            "baseline_off_cmd": "cd /repo && /venv/bin/python -m pytest -ra -q -p no:cacheprovider --timeout=900 --continue-on-collection-errors",
            "source_commits": [],
            "add_only": True,
        },
        "engines": [{
            "name": "crosshair-z3", "path": "vf/engine.py", "serves_properties": sorted(claimed),
            "kind_free_text": "CrossHair 0.0.110 symbolic execution of /repo's Python source with z3 (per-path SMT), driven through the Python API; vacuity twins; native replay of every counterexample",
        }],
        "checks": checks,
        "not_applicable": na,
        "notes": "Exit codes: 0 held / 1 VIOLATION / 2 harness error (no verdict). known_findings.json lists recorded genuine defects; see DESIGN.md.",
    }
    with open(os.path.join(V, "MANIFEST.json"), "w") as f:
        json.dump(man, f, indent=1)
    try:
        import jsonschema
        jsonschema.validate(man, json.load(open("/root/.vp/MANIFEST.schema.json")))
        print("MANIFEST.json valid;", len(checks), "checks,", len(na), "not claimed")
    except ImportError:
        print("jsonschema unavailable; not validated")


if __name__ == "__main__":
    main()
