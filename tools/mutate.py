#!/usr/bin/env python3
"""Blind-spot search: small syntactic mutants of /repo's sources, each tried in a scratch worktree against
(1) the pinned test suite and (2) the quick checks mapped to the mutated file. Survivors of both are printed:
they are either equivalent mutants or gaps in the checks, to be looked at by hand.

usage: tools/mutate.py <file under fickling/> [--max N] [--seed S] [--only-lines a-b]
Never touches /repo itself (VERIF_REPO screening mode of bin/check)."""
import argparse
import json
import os
import random
import re
import subprocess
import sys
import xml.etree.ElementTree as ET

CHECKS = {
    "fickle.py": ["C09", "C05", "C03", "C06", "C08", "C15", "C14"],
    "analysis.py": ["C04", "C19", "C10", "C13"],
    "loader.py": ["C02", "C10"], "hook.py": ["C12", "C07", "C11"], "context.py": ["C12", "C02"], "ml.py": ["C11", "C07"],
    "cli.py": ["C18", "C10", "C15"], "tracing.py": ["C09", "C01"], "polyglot.py": ["C17"],
}
# narrower mapping by line content for fickle.py
RULES = [
    (r"==", "!="), (r"!=", "=="), (r" < ", " <= "), (r" <= ", " < "), (r" > ", " >= "), (r" >= ", " > "),
    (r" and ", " or "), (r" or ", " and "), (r"\bnot ", ""), (r"\bTrue\b", "False"), (r"\bFalse\b", "True"),
    (r"reversed\(([^()]*)\)", r"\1"), (r"\[::-1\]", ""), (r"\+ 1\b", "+ 2"), (r"- 1\b", "- 2"), (r"\b0\b", "1"), (r"\b1\b", "0"),
    (r"\.append\(", ".insert(0, "), (r"\[-1\]", "[0]"), (r"\[1::2\]", "[::2]"), (r"\[::2\]", "[1::2]"),
    (r"is None", "is not None"), (r"is not None", "is None"), (r"\.pop\(\)", ".pop(0)"),
]


def sites(path, lines_range):
    src = open(path).read().split("\n")
    out = []
    in_doc = False
    for i, line in enumerate(src):
        s = line.strip()
        nq = s.count('"""') + s.count("'''")
        if nq:
            if nq % 2:
                in_doc = not in_doc
            continue
        if in_doc or not s or s.startswith("#") or s.startswith(("import ", "from ", "class ", "def ", "@", "raise ", '"', "f\"", "'")):
            continue
        if lines_range and not (lines_range[0] <= i + 1 <= lines_range[1]):
            continue
        code = line.split("#")[0]
        for pat, rep in RULES:
            for m in re.finditer(pat, code):
                # skip matches inside string literals (crude: odd number of quotes before the match)
                before = code[:m.start()]
                if before.count('"') % 2 or before.count("'") % 2:
                    continue
                new = code[:m.start()] + m.expand(rep) + code[m.end():] + line[len(code):]
                if new != line:
                    out.append((i, line, new, pat))
    return out


def suite_ok(wt):
    j = wt + "_junit.xml"
    subprocess.run(["/venv/bin/python", "-m", "pytest", "-q", "-x", "-p", "no:cacheprovider", "--timeout=900", "--junitxml=" + j,
                    "--deselect", "test/test_polyglot.py::TestPolyglotModule::test_numpy_non_pickle", "--deselect", "test/test_polyglot.py::TestPolyglotModule::test_numpy_pickle",
                    "--deselect", "test/test_polyglot.py::TestPolyglotModule::test_recursive_tar", "--deselect", "test/test_polyglot.py::TestPolyglotModule::test_recursive_zip"],
                   cwd=wt, capture_output=True, env={k: v for k, v in os.environ.items() if k != "FICKLING_VERIF"})
    try:
        base = json.load(open("/root/.vp/BASELINE.json"))["stable_pass"]
        ok = set()
        for tc in ET.parse(j).getroot().iter("testcase"):
            if not any(c.tag in ("failure", "error", "skipped") for c in tc):
                ok.add(tc.get("classname") + "::" + tc.get("name"))
        return all(t in ok for t in base)
    except Exception:
        return False


def main():
    ap = argparse.ArgumentParser()
    ap.add_argument("file")
    ap.add_argument("--max", type=int, default=20)
    ap.add_argument("--seed", type=int, default=1)
    ap.add_argument("--only-lines", default="")
    ap.add_argument("--checks", default="")
    a = ap.parse_args()
    wt = os.environ.get("MUT_WT", "/tmp/wt_mut")
    if not os.path.isdir(wt):
        subprocess.run(["git", "-C", "/repo", "worktree", "add", "-q", wt, "HEAD"], check=True)
    subprocess.run(["git", "-C", wt, "checkout", "-q", "--detach", subprocess.run(["git", "-C", "/repo", "rev-parse", "HEAD"], capture_output=True, text=True).stdout.strip()])
    path = os.path.join(wt, "fickling", a.file)
    rng = tuple(int(x) for x in a.only_lines.split("-")) if a.only_lines else None
    ss = sites(path, rng)
    random.Random(a.seed).shuffle(ss)
    checks = a.checks.split(",") if a.checks else CHECKS[a.file]
    orig = open(path).read()
    tried = 0
    for (i, old, new, pat) in ss:
        if tried >= a.max:
            break
        lines = orig.split("\n")
        lines[i] = new
        open(path, "w").write("\n".join(lines))
        try:
            r = subprocess.run(["/venv/bin/python", "-c", "import fickling, fickling.cli, fickling.polyglot"], cwd=wt, capture_output=True)
            if r.returncode != 0:
                continue
            tried += 1
            tag = "%s:%d  %r -> %r" % (a.file, i + 1, old.strip()[:70], new.strip()[:70])
            if not suite_ok(wt):
                print("suite-kills  " + tag, flush=True)
                continue
            killed_by = None
            for c in checks:
                r = subprocess.run(["bin/check", c, "quick"], cwd="/verif", capture_output=True, text=True, env=dict(os.environ, VERIF_REPO=wt))
                if r.returncode == 1:
                    lem = re.findall(r"^  lemma=(\S+)", r.stdout, re.M)
                    killed_by = "%s %s" % (c, ",".join(sorted(set(lem))[:3]))
                    break
                if r.returncode == 2:
                    killed_by = "%s HARNESS-ERROR(exit 2)" % c
                    break
            print(("check-kills  %s   [%s]" % (tag, killed_by)) if killed_by else ("SURVIVES     " + tag), flush=True)
        finally:
            open(path, "w").write(orig)


if __name__ == "__main__":
    main()
