#!/bin/sh
# usage: tools/recheck_seeds.sh [seed-dir-names...]   (default: all under /verif/seeded)
# Re-runs, for every stored seeded change, the quick check(s) that are recorded as detecting it, against a scratch worktree
# of /repo's HEAD with the change applied (VERIF_REPO screening mode: /repo itself is not touched). Prints one line per seed.
cd /verif/seeded || exit 2
SEEDS="${*:-$(ls)}"
WT=${WT:-/tmp/wt_recheck}
git -C /repo worktree remove --force $WT >/dev/null 2>&1
git -C /repo worktree add -q $WT HEAD || exit 3
for s in $SEEDS; do
  git -C $WT reset -q --hard HEAD; git -C $WT clean -fdq
  if ! git -C $WT apply /verif/seeded/$s/patch.diff 2>/dev/null; then
    if ! git -C $WT apply -3 /verif/seeded/$s/patch.diff >/dev/null 2>&1; then echo "$s PATCH-DOES-NOT-APPLY"; git -C $WT reset -q --hard HEAD; continue; fi
  fi
  checks=$(/verif/.venv/bin/python -c "
import json; m=json.load(open('/verif/seeded/$s/meta.json')); print(' '.join(c['check'] for c in m['checks'] if c['exit']==1))")
  res=""
  for P in $checks; do
    out=$(cd /verif && VERIF_REPO=$WT bin/check $P quick 2>&1); rc=$?
    res="$res $P=$rc"
  done
  echo "$s$res"
done
git -C /repo worktree remove --force $WT >/dev/null 2>&1
