#!/bin/sh
# usage: tools/eval_seed.sh <seed_out_dir> <N> <PROP> [more PROPs...]
# Confirms a sub-agent's change N (patchN.diff, demoN.py) in a fresh scratch worktree and screens the given checks against it.
set -u
SD="$1"; N="$2"; shift 2
WT=$(mktemp -d /tmp/wt_eval_XXXX)
rmdir "$WT"; git -C /repo worktree add -q "$WT" HEAD || exit 3
cleanup() { git -C /repo worktree remove --force "$WT" >/dev/null 2>&1; rm -rf "/tmp/vf_screen/$(basename "$WT")"; }
trap cleanup EXIT
cd "$WT"
echo "== demo on clean tree"; /venv/bin/python "$SD/demo$N.py" >/tmp/eval_demo_clean.log 2>&1; echo "   exit=$?"
git apply "$SD/patch$N.diff" || { echo "PATCH DOES NOT APPLY"; exit 4; }
git diff --stat | tail -1
echo "== demo with change"; /venv/bin/python "$SD/demo$N.py" >/tmp/eval_demo_patched.log 2>&1; echo "   exit=$?"; tail -3 /tmp/eval_demo_patched.log | cut -c1-300
echo "== suite with change"
OUT=$(mktemp /tmp/vf_junit_XXXX.xml)
env -u FICKLING_VERIF /venv/bin/python -m pytest -ra -q -p no:cacheprovider --timeout=900 --continue-on-collection-errors --junitxml=$OUT >/dev/null 2>&1
/venv/bin/python - "$OUT" <<'PY'
import json, sys, xml.etree.ElementTree as ET
base = json.load(open('/root/.vp/BASELINE.json'))['stable_pass']
ok = set()
for tc in ET.parse(sys.argv[1]).getroot().iter('testcase'):
    if not any(c.tag in ('failure', 'error', 'skipped') for c in tc):
        ok.add(tc.get('classname') + '::' + tc.get('name'))
missing = [t for t in base if t not in ok]
print('   baseline pass: %d/%d' % (len(base) - len(missing), len(base)), missing[:3])
PY
rm -f $OUT
for P in "$@"; do
  echo "== check $P quick against the change"
  (cd /verif && VERIF_REPO="$WT" bin/check "$P" quick 2>&1 | grep -E "^VIOLATION|^  lemma=|^HARNESS-ERROR|^property=" | cut -c1-400 | head -12)
done
