#!/bin/sh
# runs the pinned suite (guard off) and checks that the 41 baseline tests pass
OUT=$(mktemp /tmp/vf_junit_XXXX.xml)
cd /repo && env -u FICKLING_VERIF /venv/bin/python -m pytest -ra -q -p no:cacheprovider --timeout=900 --continue-on-collection-errors --junitxml=$OUT >/dev/null 2>&1
/venv/bin/python - "$OUT" <<'PY'
import json, sys, xml.etree.ElementTree as ET
base = json.load(open('/root/.vp/BASELINE.json'))['stable_pass']
ok = set()
for tc in ET.parse(sys.argv[1]).getroot().iter('testcase'):
    if not any(c.tag in ('failure', 'error', 'skipped') for c in tc):
        ok.add(tc.get('classname') + '::' + tc.get('name'))
missing = [t for t in base if t not in ok]
print('baseline pass: %d/%d' % (len(base) - len(missing), len(base)))
for m in missing: print('  NOT PASSING:', m)
sys.exit(1 if missing else 0)
PY
rc=$?
rm -f $OUT
exit $rc
