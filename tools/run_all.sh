#!/bin/sh
# usage: tools/run_all.sh <quick|thorough> [IDs...]  -- runs the checks one after the other and prints a summary line each
T="${1:-quick}"; shift
IDS="${*:-C01 C02 C03 C04 C05 C06 C07 C08 C09 C10 C11 C12 C13 C14 C15 C17 C18 C19}"
cd "$(dirname "$0")/.."
for id in $IDS; do
  bin/check $id $T > /tmp/vf_run_$id.log 2>&1; rc=$?
  echo "$id rc=$rc $(grep '^property=' /tmp/vf_run_$id.log | cut -c1-120) findings=$(grep -c '^KNOWN-FINDING' /tmp/vf_run_$id.log) $(grep -c '^HARNESS-ERROR' /tmp/vf_run_$id.log | sed 's/^/harness_errors=/')"
done
