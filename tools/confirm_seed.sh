#!/bin/sh
# usage: tools/confirm_seed.sh <ID> <N> <CHECKS...>
# Final confirmation of a seeded change on the CURRENT tree: (1) in the agent's scratch worktree moved to /repo's HEAD:
# demo passes without / fails with the change, suite passes with it; (2) on /repo itself: apply, run the checks, undo.
# Writes /verif/seeded/<ID>-<N>/{patch.diff,demo.py,notes.md,meta.json}
set -u
ID="$1"; N="$2"; shift 2
if [ "${ROUND:-1}" = "3" ]; then SD=/tmp/seed3_${ID}_out; WT=/tmp/w3_$ID; OUT=/verif/seeded/$ID-$((N+4)); elif [ "${ROUND:-1}" = "2" ]; then SD=/tmp/seed2_${ID}_out; WT=/tmp/w2_$ID; OUT=/verif/seeded/$ID-$((N+2)); else SD=/tmp/seed_${ID}_out; WT=/tmp/wt_$ID; OUT=/verif/seeded/$ID-$N; fi
mkdir -p "$OUT"; cp "$SD/patch$N.diff" "$OUT/patch.diff"; cp "$SD/demo$N.py" "$OUT/demo.py"; cp "$SD/notes.md" "$OUT/notes.md" 2>/dev/null
HEAD=$(git -C /repo rev-parse HEAD)
git -C "$WT" checkout -q -- . ; git -C "$WT" checkout -q --detach "$HEAD" || exit 3
cd "$WT"
PYTHONPATH="$WT" /venv/bin/python "$OUT/demo.py" >/dev/null 2>&1; DC=$?
git apply "$OUT/patch.diff" || { echo "$ID/$N patch does not apply"; exit 4; }
PYTHONPATH="$WT" /venv/bin/python "$OUT/demo.py" >"$OUT/demo_with_change.log" 2>&1; DP=$?
J=$(mktemp /tmp/vf_junit_XXXX.xml)
env -u FICKLING_VERIF /venv/bin/python -m pytest -ra -q -p no:cacheprovider --timeout=900 --continue-on-collection-errors --junitxml=$J >/dev/null 2>&1
SUITE=$(/venv/bin/python - "$J" <<'PY'
import json, sys, xml.etree.ElementTree as ET
base = json.load(open('/root/.vp/BASELINE.json'))['stable_pass']
ok = set()
for tc in ET.parse(sys.argv[1]).getroot().iter('testcase'):
    if not any(c.tag in ('failure', 'error', 'skipped') for c in tc):
        ok.add(tc.get('classname') + '::' + tc.get('name'))
print('%d/%d' % (len([t for t in base if t in ok]), len(base)))
PY
)
rm -f $J
git checkout -q -- .
# on /repo itself
cd /repo && git status --short | grep -v '^??' | head -1
git -C /repo apply "$OUT/patch.diff" || { echo "$ID/$N does not apply to /repo"; exit 5; }
RES=""
for P in "$@"; do
  (cd /verif && bin/check "$P" quick > "$OUT/check_$P.log" 2>&1); RC=$?
  L=$(grep -E "^  lemma=" "$OUT/check_$P.log" | sed 's/^  lemma=\([^ ]*\).*/\1/' | sort -u | tr '\n' ',' )
  RES="$RES {\"check\": \"$P\", \"exit\": $RC, \"lemmas\": \"$L\"},"
  grep -E "^VIOLATION|^  lemma=|^property=|^HARNESS" "$OUT/check_$P.log" | cut -c1-400 > "$OUT/check_$P.summary"; rm -f "$OUT/check_$P.log"
done
git -C /repo checkout -- .
cat > "$OUT/meta.json" <<META
{"property": "$ID", "seed": "$(basename $OUT)", "source": "independent sub-agent, given only the property text and a scratch worktree",
 "tree": "$HEAD", "demo_exit_without_change": $DC, "demo_exit_with_change": $DP, "suite_with_change": "$SUITE",
 "ran": ["cd <worktree at HEAD> && /venv/bin/python demo.py (without / with patch.diff)", "pytest baseline with patch.diff", "git -C /repo apply patch.diff; bin/check <P> quick; git -C /repo checkout -- ."],
 "checks": [${RES%,}]}
META
echo "$ID/$N demo $DC->$DP suite $SUITE :$RES"
