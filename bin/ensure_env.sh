#!/bin/sh
# Build (idempotently) the overlay venv /verif/.venv: /venv's python + /venv's site-packages
# (fickling's own dependencies) + crosshair-tool/z3 from the offline wheelhouse.  `fickling`
# itself always resolves to /repo (the current working tree); nothing from /repo is copied.
set -e
V="$(cd "$(dirname "$0")/.." && pwd)"
OV="$V/.venv"
LOCK="$V/.venv.lock"
exec 9>"$LOCK"
flock 9
if [ -x "$OV/bin/python" ] && "$OV/bin/python" -c "import crosshair, z3, jsonschema" >/dev/null 2>&1; then
    exit 0
fi
rm -rf "$OV"
/venv/bin/python -m venv "$OV" >/dev/null
SP="$("$OV/bin/python" -c 'import sysconfig; print(sysconfig.get_paths()["purelib"])')"
# /repo first so that `import fickling` is the working tree even if /venv has an installed copy
printf '%s\n%s\n' "/repo" "/venv/lib/python3.12/site-packages" > "$SP/zz_overlay.pth"
PIP_NO_INDEX=1 "$OV/bin/python" -m pip install -q --no-index --find-links /opt/veriftools/wheels \
    crosshair-tool jsonschema >/dev/null 2>&1 || {
    PIP_NO_INDEX=1 "$OV/bin/python" -m pip install --no-index --find-links /opt/veriftools/wheels crosshair-tool jsonschema
}
"$OV/bin/python" -c "import crosshair, z3, fickling, jsonschema; assert fickling.__file__.startswith('/repo/'), fickling.__file__"
