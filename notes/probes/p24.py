import ast, io, pickle, types, builtins
from collections import Counter
from typing import List
import fickling.fickle as F
from fickling.fickle import Pickled, Interpreter, MarkObject
from p10 import HList, Hidden
from p18 import pin
from p4 import SymStream
from o1 import make_world, canon, BUILTIN_FAMILY
from crosshair.tracers import NoTracing

# builder snippets: bytes pushed on top of whatever is there (never look below)
BUILD = [
    b"K\x07",                 # int
    b"]",                     # empty list
    b"]K\x01a",               # list [1]
    b"}",                     # empty dict
    b"}K\x01K\x02s",          # dict via SETITEM
    b"(K\x01K\x02d",          # dict via DICT
    b"\x8f",                  # empty set
    b"(K\x01K\x02t",          # tuple
    b"czqv_m\nf\n",           # global
    b"czqv_m\nf\n)R",         # reduce result (var)
    b"(czqv_m\nC\nK\x05o",    # OBJ bare call
    b"czqv_m\nC\n)\x81",      # NEWOBJ bare call
    b"(",                     # MARK
]
MEMO = [b"", b"\x94", b"q\x05"]   # none / MEMOIZE / BINPUT 5
OPS = [b"0", b"2", b"a", b"e", b"s", b"u", b"\x90", b"t", b"\x85", b"\x86", b"R", b"b", b"o", b"\x81", b"1", b"l", b"d", b"\x91", b"h\x00", b"h\x05", b"\x94", b"N", b"Q"]
OBS = [b".", b"0.", b"N.", b"h\x00.", b"h\x05.", b"0h\x00."]

class VM(pickle._Unpickler):
    pass

def run_both(h, hm, hl, prog: bytes):
    """run prog (ending in STOP) on both machines from a hidden base; return comparison verdict string"""
    log_v, stub_v = make_world()
    class V(pickle._Unpickler):
        def find_class(self, m, n):
            log_v.append(("import", "builtins" if m in BUILTIN_FAMILY else m, n)); return stub_v(m, n)
        def persistent_load(self, pid):
            log_v.append(("persid", canon(pid))); return ("PERS", pid)
    s = SymStream(prog)
    vm = V(s)
    vm._unframer = pickle._Unframer(vm._file_read, vm._file_readline)
    vm.read = vm._unframer.read; vm.readinto = vm._unframer.readinto; vm.readline = vm._unframer.readline
    vm.metastack = HList(hm, []); vm.stack = HList(hl, []); vm.append = vm.stack.append; vm.proto = 4
    try:
        while True:
            key = vm.read(1)
            pickle._Unpickler.dispatch[key[0]](vm)
    except pickle._Stop as st:
        v_res = ("ok", st.value)
    except Hidden:
        return "hidden"
    except Exception as e:
        return "vm-rejects"
    try:
        p = Pickled.load(SymStream(prog))
        it = Interpreter(p)
        it.stack._stack = HList(h, [])
        it.run()
        src = ast.unparse(it._module)
    except Hidden:
        return "hidden"
    except Exception as e:
        return "refused"
    log_d, stub_d = make_world()
    def imp(name, globals=None, locals=None, fromlist=(), level=0):
        m = types.ModuleType(name)
        for n in fromlist:
            log_d.append(("import", name, n)); setattr(m, n, stub_d(name, n))
        return m
    bi = {n: stub_d("builtins", n) for n in dir(builtins) if not n.startswith("__")}
    for n in ("True", "False", "None"): bi[n] = getattr(builtins, n)
    bi["__import__"] = imp
    env = {"__builtins__": bi}
    try:
        exec(compile(src, "<d>", "exec"), env)
    except Exception as e:
        return "execerr:" + type(e).__name__
    missing = Counter(map(repr, log_v)) - Counter(map(repr, log_d))
    if missing: return "EVENTS"
    if canon(v_res[1]) != canon(env["result"]): return "VALUE"
    return "ok"

def lock(h: int, hm: int, hl: int, b1: int, m1: int, b2: int, m2: int, op: int, ob: int) -> bool:
    """
    pre: h >= 0 and hm >= 0 and hl >= 0
    pre: 0 <= b1 < 13 and 0 <= m1 < 3 and 0 <= b2 < 13 and 0 <= m2 < 3 and 0 <= op < 23 and 0 <= ob < 6
    post: _
    """
    b1, m1, b2, m2, op, ob = pin(b1, 0, 12), pin(m1, 0, 2), pin(b2, 0, 12), pin(m2, 0, 2), pin(op, 0, 22), pin(ob, 0, 5)
    prog = BUILD[b1] + MEMO[m1] + BUILD[b2] + MEMO[m2] + OPS[op] + OBS[ob]
    r = run_both(h, hm, hl, prog)
    return r not in ("EVENTS", "VALUE")
