from p2 import *
from p2b import lockstep
from crosshair.tracers import NoTracing

def pin(x, lo, hi):
    # exhaustive binary-search fan; returns a concrete int equal to x on this path
    while lo < hi:
        mid = (lo + hi) // 2
        if x <= mid: hi = mid
        else: lo = mid + 1
    return lo

def fan3(a: int, b: int, c: int) -> bool:
    """
    pre: 0 <= a < 24 and 0 <= b < 24 and 0 <= c < 6
    post: _
    """
    a, b, c = pin(a, 0, 23), pin(b, 0, 23), pin(c, 0, 5)
    with NoTracing():
        ops = [ALPHA[a](0), ALPHA[b](1), ALPHA[c](2)]
        return lockstep(ops)
