import sys, ast
from p5 import *
from fickling.analysis import check_safety
from fickling.fickle import Pickled, Interpreter, StackedPickle
import fickling.tracing as tracing
import io, contextlib

EVENTS = []
ARMED = [False]
WATCH = ("import", "exec", "compile", "pickle.find_class", "os.system", "subprocess.Popen", "socket.connect", "open", "os.exec", "os.posix_spawn", "ctypes.dlopen")
def hook(ev, args):
    if ARMED[0] and ev in WATCH:
        # attribute to fickling only when a fickling frame is the nearest non-stdlib/non-crosshair python frame
        f = sys._getframe(1); 
        while f is not None:
            fn = f.f_code.co_filename
            if "/crosshair/" in fn or "/z3/" in fn: return
            if "/fickling/" in fn: 
                EVENTS.append((ev, str(args)[:80])); return
            f = f.f_back
sys.addaudithook(hook)

VOC_M = ["os", "builtins", "foo", "collections", "torch.hub"]
VOC_N = ["system", "eval", "bar", "OrderedDict", "load"]

def inert(mi: int, ni: int, how: int, x: int, tail: bytes) -> bool:
    """
    pre: 0 <= mi < 5 and 0 <= ni < 5 and 0 <= how < 3 and 0 <= x < 256 and len(tail) <= 2
    post: _
    """
    m, n = VOC_M[mi].encode(), VOC_N[ni].encode()
    if how == 0:
        b = b"c" + m + b"\n" + n + b"\n(K" + bytes([x]) + b"tR."
    elif how == 1:
        b = b"(K" + bytes([x]) + b"i" + m + b"\n" + n + b"\n."
    else:
        b = b"\x8c" + bytes([len(m)]) + m + b"\x8c" + bytes([len(n)]) + n + b"\x93(K" + bytes([x]) + b"o."
    del EVENTS[:]
    ARMED[0] = True
    try:
        try:
            p = Pickled.load(SymStream(b + tail))
            src = ast.unparse(p.ast)
            r = check_safety(p)
            with contextlib.redirect_stdout(io.StringIO()):
                tracing.Trace(Interpreter(p)).run()
        except Exception:
            pass
    finally:
        ARMED[0] = False
    return not EVENTS
