import sys, io
from p5 import *      # SymStream, pure struct
import fickling.cli as cli
from fickling.fickle import Pickled, StackedPickle
from p15 import Collector

class FakeIn:
    def __init__(self, s): self.buffer = s
class FakeOut:
    def __init__(self): self.buffer = Collector(); self.text = []
    def write(self, s): self.text.append(s)
    def flush(self): pass
    def isatty(self): return False

def inject_local(x: int, y: int, z: int, k: int, last: bool, repl: bool) -> bool:
    """
    pre: 0 <= x < 256 and 0 <= y < 256 and 0 <= z < 256 and 0 <= k <= 3
    post: _
    """
    parts = [b"K" + bytes([x]) + b".", b"]K" + bytes([y]) + b"a.", b"\x80\x02K" + bytes([z]) + b"."]
    kk = 0
    while kk < k: kk += 1          # pin k
    o_in, o_out, o_err = sys.stdin, sys.stdout, sys.stderr
    out = FakeOut()
    sys.stdin, sys.stdout, sys.stderr = FakeIn(SymStream(parts[0] + parts[1] + parts[2])), out, io.StringIO()
    try:
        rc = cli.main(["fickling", "--inject", "print(1)", "--inject-target", str(kk)] + (["--run-last"] if last else []) + (["--replace-result"] if repl else []))
    finally:
        sys.stdin, sys.stdout, sys.stderr = o_in, o_out, o_err
    got = out.buffer.value()
    if kk >= 3:
        return rc != 0 and got == b""
    exp = Pickled.load(SymStream(parts[kk]))
    exp.insert_python_eval("print(1)", run_first=not last, use_output_as_unpickle_result=repl)
    want = b"".join(parts[:kk]) + exp.dumps() + b"".join(parts[kk + 1:])
    return rc == 0 and got == want
