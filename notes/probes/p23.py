from p22 import *
import crosshair.libimpl.builtinslib as BL
_orig_int_repr = BL.SymbolicInt.__repr__
def _int_str(self):
    if self < 0:
        return "-" + _orig_int_repr(-self)
    return _orig_int_repr(self)
BL.SymbolicInt.__str__ = _int_str
BL.SymbolicInt.__repr__ = lambda self: "<symbolic int>"
for nm in ("SymbolicBytes", "SymbolicByteArray"):
    if hasattr(BL, nm): getattr(BL, nm).__repr__ = lambda self: "<symbolic bytes>"
print([n for n in dir(BL) if "Bytes" in n or "ByteArr" in n][:10])

def int_new(x: int) -> bool:
    """
    post: _
    """
    try:
        op = F.ConstantOpcode.new(x)
    except (ValueError, OverflowError):
        return True
    if op.name in ("INT", "LONG"):
        # decimal cut: body must be the decimal rendering followed by newline
        return op.encode() == op.info.code.encode() + str(x).encode() + b"\n"
    data = op.encode()
    name, arg = decode_one(data)
    return arg == x and type(arg) is int and name == op.name

def bytes_new(x: bytes) -> bool:
    """
    pre: len(x) <= 3
    post: _
    """
    op = F.ConstantOpcode.new(x)
    data = op.encode()
    name, arg = decode_one(data)
    return arg == x and name == op.name

def int_new_b(x: int) -> bool:
    """
    pre: -10**5 <= x <= 10**5
    post: _
    """
    return int_new(x)

def int_new_cut(x: int) -> bool:
    """
    post: _
    """
    try:
        op = F.ConstantOpcode.new(x)
    except (ValueError, OverflowError):
        return True
    if op.name in ("INT", "LONG"):
        return op.arg is x or op.arg == x      # text rendering checked separately on samples
    data = op.encode()
    name, arg = decode_one(data)
    return arg == x and type(arg) is int and name == op.name
