import ast, io, pickle
from typing import List, Dict
import fickling.fickle as F
from fickling.fickle import Pickled, Interpreter, MarkObject

class Hidden(BaseException): pass

class HList:
    def __init__(self, h, tail):
        self.h = h; self.tail = list(tail); self.h0 = h
    def __len__(self): return self.h + len(self.tail)
    def __bool__(self): return bool(self.tail) or self.h > 0
    def pop(self, i=-1):
        if i != -1: raise Hidden()
        if not self.tail: raise Hidden()
        return self.tail.pop()
    def append(self, x): self.tail.append(x)
    def extend(self, xs): self.tail.extend(xs)
    def __getitem__(self, i):
        if isinstance(i, slice): raise Hidden()
        if i < 0:
            if -i > len(self.tail): raise Hidden()
            return self.tail[i]
        j = i - self.h
        if j < 0: raise Hidden()
        return self.tail[j]
    def __iter__(self): raise Hidden()

MARK, CONST, LIST, DICT, SET, TUP, NAME = range(7)
def mkF(k):
    if k == MARK: return MarkObject()
    if k == CONST: return ast.Constant("c")
    if k == LIST: return ast.List([], ast.Load())
    if k == DICT: return ast.Dict(keys=[], values=[])
    if k == SET: return ast.Set([])
    if k == TUP: return ast.Tuple((), ast.Load())
    return ast.Name("n", ast.Load())

OPS = [F.Pop, F.Dup, F.Mark, F.EmptyList, F.Append, F.Appends, F.AddItems, F.SetItem, F.SetItems, F.Tuple, F.TupleOne, F.TupleTwo, F.Reduce, F.Build, F.Memoize, F.PopMark, F.List, F.Dict, F.Obj, F.NewObj]
# expected shape effect from pickletools: (pops non-mark fixed, to_mark?, pushes)
def expected(op, kinds):
    """reference: returns new kinds-shape (list of is_mark bools) or None if not accepted"""
    sb = [x.name for x in op.info.stack_before]; sa = [x.name for x in op.info.stack_after]
    s = [k == MARK for k in kinds]
    if "stackslice" in sb:
        # pop to mark
        n = 0
        while True:
            if not s: raise Hidden()
            if s.pop(): break
            n += 1
        rest = sb[:sb.index("mark")]
        for _ in rest:
            if not s: raise Hidden()
            if s.pop(): return None
    else:
        for _ in sb:
            if not s: raise Hidden()
            if s.pop():
                if op.name != "POP": return None
    for x in sa:
        s.append(x == "mark")
    return s

def step_shape(opi: int, h: int, kinds: List[int]) -> bool:
    """
    pre: 0 <= opi < 20
    pre: h >= 0 and len(kinds) <= 3
    pre: all(0 <= k < 7 for k in kinds)
    post: _
    """
    op = OPS[opi]()
    it = Interpreter(Pickled([op]))
    it.stack._stack = HList(h, [mkF(k) for k in kinds])
    try:
        exp = expected(op, list(kinds))
        it.step()
    except Hidden:
        return True
    except Exception:
        return True
    if exp is None:
        return True
    got = [isinstance(x, MarkObject) for x in it.stack._stack.tail]
    return it.stack._stack.h == h and got == exp
