from p2 import *
from p2b import lockstep
from crosshair.tracers import NoTracing
from crosshair.core import realize

def fan3(a: int, b: int, c: int) -> bool:
    """
    pre: 0 <= a < 24 and 0 <= b < 24 and 0 <= c < 6
    post: _
    """
    a, b, c = realize(a), realize(b), realize(c)
    with NoTracing():
        ops = [ALPHA[a](0), ALPHA[b](1), ALPHA[c](2)]
        return lockstep(ops)

def fan1(code: int) -> bool:
    """
    pre: 0 <= code < 3456
    post: _
    """
    code = realize(code)
    with NoTracing():
        a, b, c = code % 24, (code // 24) % 24, code // 576
        ops = [ALPHA[a](0), ALPHA[b](1), ALPHA[c](2)]
        return lockstep(ops)
