from p10 import *
from typing import Set

class MemoF(dict):
    pass

def lemma_memoize(h: int, hm: int, hl: int, kinds: List[int], keys: Set[int]) -> bool:
    """
    pre: h >= 0 and hm >= 0 and hl >= 0 and 1 <= len(kinds) <= 2
    pre: all(0 <= k < 7 for k in kinds)
    pre: all(k >= 0 for k in keys)
    post: _
    """
    op = F.Memoize()
    it = Interpreter(Pickled([op]))
    it.stack._stack = HList(h, [mkF(k) for k in kinds])
    it.memory = {k: ast.Constant(0) for k in keys}
    vm = build_vm(hm, hl, kinds, {k: 0 for k in keys})
    try:
        try:
            pickle._Unpickler.dispatch[0x94](vm); v_ok = True
        except Hidden: raise
        except Exception: v_ok = False
        try:
            it.step(); f_ok = True
        except Hidden: raise
        except Exception: f_ok = False
    except Hidden:
        return True
    if not (v_ok and f_ok):
        return True
    return set(it.memory) == set(vm.memo)

def lemma_binput(h: int, hm: int, hl: int, kinds: List[int], keys: Set[int], arg: int) -> bool:
    """
    pre: h >= 0 and hm >= 0 and hl >= 0 and 1 <= len(kinds) <= 2
    pre: all(0 <= k < 7 for k in kinds)
    pre: all(k >= 0 for k in keys)
    pre: 0 <= arg < 256
    post: _
    """
    op = F.BinPut(arg)
    it = Interpreter(Pickled([op]))
    it.stack._stack = HList(h, [mkF(k) for k in kinds])
    it.memory = {k: ast.Constant(0) for k in keys}
    vm = build_vm(hm, hl, kinds, {k: 0 for k in keys}, bytes([arg]))
    try:
        try:
            pickle._Unpickler.dispatch[ord("q")](vm); v_ok = True
        except Hidden: raise
        except Exception: v_ok = False
        try:
            it.step(); f_ok = True
        except Hidden: raise
        except Exception: f_ok = False
    except Hidden:
        return True
    if not (v_ok and f_ok):
        return True
    return set(it.memory) == set(vm.memo)
