import sys, time, importlib, collections
from crosshair.core_and_libs import analyze_function, run_checkables, MessageType
from crosshair.options import AnalysisOptionSet
from crosshair.options import DEFAULT_OPTIONS
def run(fn, timeout=60, per_path=None, max_unint=None):
    stats = collections.Counter()
    opts = AnalysisOptionSet(per_condition_timeout=timeout, report_all=True, stats=stats, max_uninteresting_iterations=max_unint or 10**9)
    if per_path: opts.per_path_timeout = per_path
    t=time.time()
    msgs = run_checkables(analyze_function(fn, DEFAULT_OPTIONS.overlay(opts)))
    dt=time.time()-t
    return [(m.state.name, m.message) for m in msgs], dict(stats), dt
if __name__ == "__main__":
    mod, fn = sys.argv[1].split(":")
    sys.path.insert(0, ".")
    m = importlib.import_module(mod)
    to = float(sys.argv[2]) if len(sys.argv) > 2 else 60
    msgs, stats, dt = run(getattr(m, fn), to)
    for s, msg in msgs: print(s, msg[:600])
    print(stats, f"{dt:.1f}s")
