import pickle, io, ast
from p5 import *   # pure struct stubs, SymStream
import pickle as _p
_p.pack = pure_pack  # pickle.py: from struct import pack, unpack
_p.unpack = pure_unpack
from fickling.fickle import Pickled

class Collector:
    def __init__(self): self.chunks = []
    def write(self, b): self.chunks.append(b); return len(b)
    def value(self):
        out = b""
        for c in self.chunks: out += c
        return out

def ev(node):
    if isinstance(node, ast.Constant): return node.value
    if isinstance(node, ast.List): return [ev(e) for e in node.elts]
    if isinstance(node, ast.Tuple): return tuple(ev(e) for e in node.elts)
    raise TypeError(node)

def int_plain(x: int, proto: int) -> bool:
    """
    pre: 0 <= proto <= 5
    post: _
    """
    c = Collector()
    _p._Pickler(c, proto).dump([x, (x,)])
    data = c.value()
    p = Pickled.load(SymStream(data))
    body = p.ast.body
    res = ev(body[-1].value)
    return res == [x, (x,)] and type(res[0]) is int
