import io, pickle, ast
from typing import List, Tuple
import fickling.fickle as F
from fickling.fickle import Pickled, Interpreter, MarkObject

class Stub:
    def __init__(self, *a, **k): self.a=a; self.k=k
    def __setstate__(self, s): self.s = s
    def __call__(self, *a, **k): return Stub(*a, **k)
    def __reduce_ex__(self, p): raise TypeError
    def append(self, x): pass
    def extend(self, x): pass
    def __setitem__(self, k, v): pass
    def add(self, v): pass

class RefVM(pickle._Unpickler):
    def find_class(self, module, name):
        return Stub
    def persistent_load(self, pid):
        return Stub()
    def start(self):
        self._unframer = pickle._Unframer(self._file_read, self._file_readline)
        self.read = self._unframer.read
        self.readinto = self._unframer.readinto
        self.readline = self._unframer.readline
        self.metastack = []
        self.stack = []
        self.append = self.stack.append
        self.proto = 0
    def step(self):
        key = self.read(1)
        if not key:
            raise EOFError
        pickle._Unpickler.dispatch[key[0]](self)
    def shape(self):
        flat = []
        for s in self.metastack:
            flat.extend([0]*len(s)); flat.append(1)
        flat.extend([0]*len(self.stack))
        return flat, sorted(self.memo.keys())

def fshape(interp):
    return [1 if isinstance(x, MarkObject) else 0 for x in interp.stack], sorted(interp.memory.keys())

ALPHA = [
    lambda a: F.Mark(),
    lambda a: F.BinInt1(a % 256),
    lambda a: F.EmptyList(),
    lambda a: F.EmptyDict(),
    lambda a: F.EmptySet(),
    lambda a: F.Append(),
    lambda a: F.Appends(),
    lambda a: F.SetItem(),
    lambda a: F.SetItems(),
    lambda a: F.AddItems(),
    lambda a: F.Pop(),
    lambda a: F.PopMark(),
    lambda a: F.Dup(),
    lambda a: F.BinPut(a % 4),
    lambda a: F.BinGet(a % 4),
    lambda a: F.Memoize(),
    lambda a: F.Tuple(),
    lambda a: F.TupleOne(),
    lambda a: F.Global.create("m", "n"),
    lambda a: F.Reduce(),
    lambda a: F.Build(),
    lambda a: F.Obj(),
    lambda a: F.NewObj(),
    lambda a: F.NoneOpcode(),
]
def enc(op):
    if isinstance(op, F.BinPut) or isinstance(op, F.BinGet):
        return op.info.code.encode("latin-1") + bytes([op.arg])
    return op.encode()

def sim(prog: List[Tuple[int, int]]) -> bool:
    """
    pre: len(prog) <= 3
    pre: all(0 <= k < 24 and 0 <= a < 4 for k, a in prog)
    post: _
    """
    ops = [ALPHA[k](a) for k, a in prog]
    data = b"".join(enc(o) for o in ops)
    vm = RefVM(io.BytesIO(data)); vm.start()
    it = Interpreter(Pickled(ops))
    for i in range(len(ops)):
        try:
            vm.step(); vm_ok = True
        except pickle._Stop:
            return True
        except Exception:
            vm_ok = False
        try:
            it.step(); f_ok = True
        except Exception:
            f_ok = False
        if not (vm_ok and f_ok):
            return True   # only compare prefixes both accept
        if vm.shape() != fshape(it):
            return False
    return True
