import io, pickle, pickletools
import fickling.fickle as F
from fickling.fickle import ConstantOpcode, Pickled

class SymStream:
    """pure-python seekable binary stream over a (possibly symbolic) bytes value"""
    def __init__(self, data):
        self.data = data; self.pos = 0; self.reads = []
    def read(self, n=-1):
        if n is None or n < 0:
            r = self.data[self.pos:]
        else:
            r = self.data[self.pos:self.pos + n]
        self.pos += len(r)
        return r
    def readline(self):
        i = self.data.find(b"\n", self.pos)
        if i < 0:
            r = self.data[self.pos:]
        else:
            r = self.data[self.pos:i + 1]
        self.pos += len(r)
        return r
    def tell(self): return self.pos
    def seek(self, p, whence=0):
        if whence == 0: self.pos = p
        elif whence == 1: self.pos += p
        else: self.pos = len(self.data) + p
        return self.pos
    def seekable(self): return True
    def close(self): pass

def decode_one(data):
    ops = list(pickletools.genops(SymStream(data + b".")))
    return ops[0][0].name, ops[0][1]

def int_roundtrip(x: int) -> bool:
    """
    post: _
    """
    try:
        op = ConstantOpcode.new(x)
        data = op.encode()
    except (ValueError, NotImplementedError, OverflowError):
        return True
    name, arg = decode_one(data)
    return arg == x and type(arg) is int and name == op.name

def str_roundtrip(x: str) -> bool:
    """
    pre: len(x) <= 3
    post: _
    """
    try:
        op = ConstantOpcode.new(x)
        data = op.encode()
    except (ValueError, NotImplementedError, OverflowError):
        return True
    name, arg = decode_one(data)
    return arg == x and type(arg) is str and name == op.name
