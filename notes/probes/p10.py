import ast, io, pickle
from typing import List, Dict
import fickling.fickle as F
from fickling.fickle import Pickled, Interpreter, MarkObject
from p7 import Hidden, MARK, CONST, LIST, DICT, SET, TUP, NAME, mkF
from p2 import Stub

class HList:
    def __init__(self, h, tail):
        self.h = h; self.tail = list(tail)
    def __len__(self): return self.h + len(self.tail)
    def __bool__(self): return bool(self.tail) or self.h > 0
    def pop(self, i=-1):
        if i != -1 or not self.tail: raise Hidden()
        return self.tail.pop()
    def append(self, x): self.tail.append(x)
    def extend(self, xs): self.tail.extend(xs)
    def _ix(self, i):
        if isinstance(i, slice):
            if i.stop is None and i.step is None and isinstance(i.start, int) and i.start < 0 and -i.start <= len(self.tail):
                return slice(i.start, None)
            raise Hidden()
        if i < 0:
            if -i > len(self.tail): raise Hidden()
            return i
        j = i - self.h
        if j < 0: raise Hidden()
        return j
    def __getitem__(self, i): return self.tail[self._ix(i)]
    def __setitem__(self, i, v): self.tail[self._ix(i)] = v
    def __delitem__(self, i): del self.tail[self._ix(i)]
    def __iter__(self): raise Hidden()

def mkV(k):
    if k == CONST: return "c"
    if k == LIST: return []
    if k == DICT: return {}
    if k == SET: return set()
    if k == TUP: return ()
    return Stub

class VM(pickle._Unpickler):
    def find_class(self, m, n): return Stub
    def persistent_load(self, pid): return Stub()

def build_vm(hm, hl, kinds, memo, argbytes=b""):
    from p4 import SymStream
    vm = VM(SymStream(argbytes))
    vm._unframer = pickle._Unframer(vm._file_read, vm._file_readline)
    vm.read = vm._unframer.read; vm.readinto = vm._unframer.readinto; vm.readline = vm._unframer.readline
    vm.proto = 4
    segs = [[]]
    for k in kinds:
        if k == MARK: segs.append([])
        else: segs[-1].append(mkV(k))
    segs[0] = HList(hl, segs[0])
    vm.metastack = HList(hm, segs[:-1])
    vm.stack = segs[-1]
    vm.append = vm.stack.append
    vm.memo = memo
    return vm

def vm_shape(vm):
    out = []
    for s in vm.metastack.tail:
        out.extend([False] * len(s.tail if isinstance(s, HList) else s)); out.append(True)
    s = vm.stack
    out.extend([False] * len(s.tail if isinstance(s, HList) else s))
    return out

def lemma(opcls, code, h, hm, hl, kinds, arg=None, argbytes=b""):
    op = opcls(arg) if arg is not None else opcls()
    it = Interpreter(Pickled([op]))
    it.stack._stack = HList(h, [mkF(k) for k in kinds])
    vm = build_vm(hm, hl, kinds, {}, argbytes)
    try:
        try:
            pickle._Unpickler.dispatch[code](vm); v_ok = True
        except Hidden: raise
        except Exception: v_ok = False
        try:
            it.step(); f_ok = True
        except Hidden: raise
        except Exception: f_ok = False
    except Hidden:
        return True
    if not (v_ok and f_ok):
        return True
    got = [isinstance(x, MarkObject) for x in it.stack._stack.tail]
    return got == vm_shape(vm) and set(it.memory) == set(vm.memo)

def lemma_append(h: int, hm: int, hl: int, kinds: List[int]) -> bool:
    """
    pre: h >= 0 and hm >= 0 and hl >= 0 and len(kinds) <= 3
    pre: all(0 <= k < 7 for k in kinds)
    post: _
    """
    return lemma(F.Append, ord("a"), h, hm, hl, kinds)
def lemma_additems(h: int, hm: int, hl: int, kinds: List[int]) -> bool:
    """
    pre: h >= 0 and hm >= 0 and hl >= 0 and len(kinds) <= 3
    pre: all(0 <= k < 7 for k in kinds)
    post: _
    """
    return lemma(F.AddItems, 0x90, h, hm, hl, kinds)
def lemma_setitems(h: int, hm: int, hl: int, kinds: List[int]) -> bool:
    """
    pre: h >= 0 and hm >= 0 and hl >= 0 and len(kinds) <= 4
    pre: all(0 <= k < 7 for k in kinds)
    post: _
    """
    return lemma(F.SetItems, ord("u"), h, hm, hl, kinds)
def lemma_pop(h: int, hm: int, hl: int, kinds: List[int]) -> bool:
    """
    pre: h >= 0 and hm >= 0 and hl >= 0 and len(kinds) <= 3
    pre: all(0 <= k < 7 for k in kinds)
    post: _
    """
    return lemma(F.Pop, ord("0"), h, hm, hl, kinds)
def lemma_witness(h: int, hm: int, hl: int, kinds: List[int]) -> bool:
    """
    pre: h >= 0 and hm >= 0 and hl >= 0 and len(kinds) <= 3
    pre: all(0 <= k < 7 for k in kinds)
    post: _
    """
    return not lemma(F.Append, ord("a"), h, hm, hl, kinds) or len(kinds) < 2 or kinds[-2] != LIST
