from p5 import *
from fickling.fickle import Pickled, PickleDecodeError, EmptyPickleError

def rt_binint1(x: int, tail: bytes) -> bool:
    """
    pre: 0 <= x < 256 and len(tail) <= 2
    post: _
    """
    head = b"K" + bytes([x]) + b"."
    s = SymStream(head + tail)
    p = Pickled.load(s)
    return p.dumps() == head and s.tell() == len(head)

def rt_shortbinunicode(body: bytes, tail: bytes) -> bool:
    """
    pre: len(body) <= 2 and len(tail) <= 2
    post: _
    """
    head = b"\x8c" + bytes([len(body)]) + body + b"."
    s = SymStream(head + tail)
    try:
        p = Pickled.load(s)
    except PickleDecodeError:
        return True   # invalid utf-8
    return p.dumps() == head and s.tell() == len(head)

def rt_raw(b: bytes) -> bool:
    """
    pre: len(b) <= 3
    post: _
    """
    s = SymStream(b)
    try:
        p = Pickled.load(s)
    except (PickleDecodeError, NotImplementedError):
        return True
    n = s.tell()
    return p.dumps() == b[:n]
