import io, contextlib
import fickling.polyglot as PG

def expected(torchzip, data, const, ver, mj, attr):
    out = []
    if torchzip:
        if data and const and ver: out.append("TorchScript v1.4")
        if data and const: out.append("TorchScript v1.3")
        if mj: out.append("TorchScript v1.0")
        if mj and attr: out.append("TorchScript v1.1")
        if data: out.append("PyTorch v1.3")
    return out

def table(torchzip: bool, data: bool, const: bool, ver: bool, mj: bool, attr: bool, tar: bool, legacy: bool, pkl: bool, stdzip: bool, mar: bool) -> bool:
    """
    post: _
    """
    props = {"is_torch_zip": torchzip, "is_tar": tar, "is_valid_pickle": pkl, "is_numpy": False, "is_numpy_pickle": False,
             "is_standard_zip": stdzip, "is_standard_not_torch": stdzip and not torchzip,
             "has_data_pkl": data and torchzip, "has_constants_pkl": const and torchzip, "has_version": ver and torchzip,
             "has_model_json": mj and torchzip, "has_attributes_pkl": attr and torchzip}
    o = (PG.find_file_properties, PG.check_if_legacy_format, PG.check_if_model_archive_format)
    PG.find_file_properties = lambda f, pp=False: dict(props)
    PG.check_if_legacy_format = lambda f: legacy
    PG.check_if_model_archive_format = lambda f, p: mar
    try:
        with contextlib.redirect_stdout(io.StringIO()):
            got = PG.identify_pytorch_file_format("x")
    finally:
        PG.find_file_properties, PG.check_if_legacy_format, PG.check_if_model_archive_format = o
    exp = expected(torchzip, data, const, ver, mj, attr)
    if tar and legacy: exp.append("PyTorch v0.1.1")
    if pkl: exp.append("PyTorch v0.1.10")
    if stdzip and mar: exp.append("PyTorch model archive format")
    return got == exp
