from p12 import *
def no_leak2(s: str) -> bool:
    """
    pre: len(s) <= 14
    post: _
    """
    restore()
    try:
        u = FicklingMLUnpickler(io.BytesIO(b""), also_allow=[s])
    except ValueError:
        return True
    same = all(len(ML_ALLOWLIST[k]) == len(BASE[k]) for k in BASE)
    restore()
    return same
def rs(s: str) -> bool:
    """
    pre: len(s) <= 14
    post: _
    """
    try:
        m, n = s.rsplit(".", 1)
    except ValueError:
        return True
    return m != "collections"
