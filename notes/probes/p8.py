import pickle, io
from typing import List, Optional
import fickling.loader as loader
import fickling.analysis as A
from fickling.analysis import Severity, AnalysisResult, AnalysisResults
from fickling.exception import UnsafeFileError
from p4 import SymStream

ORDER = [Severity.LIKELY_SAFE, Severity.POSSIBLY_UNSAFE, Severity.SUSPICIOUS, Severity.LIKELY_UNSAFE, Severity.LIKELY_OVERTLY_MALICIOUS, Severity.OVERTLY_MALICIOUS]
def rank(s):
    for i, t in enumerate(ORDER):
        if s is t: return i

class Boom(Exception): pass

def loader_gate(sevs: List[Severity], thr: Severity, boom: bool, x: int, y: int) -> bool:
    """
    pre: len(sevs) <= 3
    pre: 0 <= x < 256 and 0 <= y < 256
    post: _
    """
    b1 = b"K" + bytes([x]) + b"."
    b2 = b"K" + bytes([y]) + b"."
    stream = SymStream(b1)
    executed = []
    def spy_loads(data, *a, **k):
        executed.append(data)
        return ("OBJ", data)
    def spy_load(f, *a, **k):
        executed.append(("load", f))
        return "BAD"
    def stub_check(pickled, analyzer=None, verbosity=None, json_output_path=None):
        stream.data = b2; stream.pos = 0       # adversary rewrites the file after analysis
        if boom: raise Boom()
        return AnalysisResults(pickled, [AnalysisResult(s, "m", "n", "t") for s in sevs])
    o_loads, o_load, o_check = pickle.loads, pickle.load, loader.check_safety
    pickle.loads, pickle.load, loader.check_safety = spy_loads, spy_load, stub_check
    try:
        try:
            r = loader.load(stream, max_acceptable_severity=thr)
            outcome = "ret"
        except UnsafeFileError as e:
            outcome = "unsafe"; info = e.info
        except Boom:
            outcome = "boom"
    finally:
        pickle.loads, pickle.load, loader.check_safety = o_loads, o_load, o_check
    verdict = max([rank(s) for s in sevs], default=0)
    if boom:
        return outcome == "boom" and not executed
    if verdict <= rank(thr):
        return outcome == "ret" and executed == [b1] and r == ("OBJ", b1)
    return outcome == "unsafe" and not executed and info["severity"] == ORDER[verdict].name
