import ast, pickle
import fickling.fickle as F
from fickling.fickle import Pickled
BASE = pickle.dumps([1, 2], 2)
def views(p):
    return (ast.dump(p.ast), p.has_import, p.has_call, p.dumps())
def ins(i: int, warm: bool) -> bool:
    """
    pre: -8 <= i <= 8
    post: _
    """
    p = Pickled.load(BASE)
    if warm: views(p)
    p.insert(i, F.NoneOpcode()); 
    p.insert(i, F.Pop())
    fresh = Pickled(list(p))
    try:
        a = views(p)
    except Exception as e:
        a = type(e).__name__
    try:
        b = views(fresh)
    except Exception as e:
        b = type(e).__name__
    return a == b
