from p6 import *
def rt_sbu_ascii(body: bytes, tail: bytes) -> bool:
    """
    pre: len(body) <= 3 and len(tail) <= 2
    pre: all(c < 128 for c in body)
    post: _
    """
    head = b"\x8c" + bytes([len(body)]) + body + b"."
    s = SymStream(head + tail)
    p = Pickled.load(s)
    return p.dumps() == head and s.tell() == len(head)
def rt_binbytes(body: bytes, tail: bytes) -> bool:
    """
    pre: len(body) <= 4 and len(tail) <= 2
    post: _
    """
    head = b"B" + len(body).to_bytes(4, "little") + body + b"."
    s = SymStream(head + tail)
    p = Pickled.load(s)
    return p.dumps() == head and s.tell() == len(head)
def rt_global(m: bytes, n: bytes, tail: bytes) -> bool:
    """
    pre: len(m) <= 3 and len(n) <= 3 and len(tail) <= 2
    pre: all(32 < c < 127 for c in m) and all(32 < c < 127 for c in n)
    post: _
    """
    head = b"c" + m + b"\n" + n + b"\n."
    s = SymStream(head + tail)
    p = Pickled.load(s)
    return p.dumps() == head and s.tell() == len(head)
