from p4 import *
import struct as _struct, pickletools
_SZ = {"b":1,"B":1,"h":2,"H":2,"i":4,"I":4,"q":8,"Q":8}
def pure_pack(fmt, *vals):
    order = "little" if fmt[0] == "<" else "big"
    out = b""
    for c, v in zip(fmt[1:], vals):
        n = _SZ[c]; signed = c.islower()
        lo, hi = (-(1 << (8*n-1)), (1 << (8*n-1)) - 1) if signed else (0, (1 << (8*n)) - 1)
        if not isinstance(v, int): raise _struct.error("required argument is not an integer")
        if v < lo or v > hi: raise _struct.error("out of range")
        out += v.to_bytes(n, order, signed=signed)
    return out
def pure_unpack(fmt, data):
    order = "little" if fmt[0] == "<" else "big"
    res = []; off = 0
    for c in fmt[1:]:
        n = _SZ[c]
        res.append(int.from_bytes(data[off:off+n], order, signed=c.islower())); off += n
    return tuple(res)
F.struct = type("S", (), {"pack": staticmethod(pure_pack), "unpack": staticmethod(pure_unpack), "error": _struct.error})
pickletools._unpack = pure_unpack

def int_roundtrip2(x: int) -> bool:
    """
    post: _
    """
    try:
        op = ConstantOpcode.new(x)
        data = op.encode()
    except (ValueError, NotImplementedError, OverflowError):
        return True
    name, arg = decode_one(data)
    return arg == x and type(arg) is int and name == op.name
