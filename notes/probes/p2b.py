from p2 import *
from crosshair.tracers import NoTracing
from crosshair.core import realize, deep_realize

def lockstep(ops):
    data = b"".join(enc(o) for o in ops)
    vm = RefVM(io.BytesIO(data)); vm.start()
    it = Interpreter(Pickled(ops))
    for i in range(len(ops)):
        try:
            vm.step(); vm_ok = True
        except pickle._Stop:
            return True
        except Exception:
            vm_ok = False
        try:
            it.step(); f_ok = True
        except Exception:
            f_ok = False
        if not (vm_ok and f_ok):
            return True
        if vm.shape() != fshape(it):
            return False
    return True

def sim2(prog: List[Tuple[int, int]]) -> bool:
    """
    pre: len(prog) <= 3
    pre: all(0 <= k < 24 and 0 <= a < 4 for k, a in prog)
    post: _
    """
    cprog = deep_realize(prog)
    with NoTracing():
        ops = [ALPHA[k](a) for k, a in cprog]
        return lockstep(ops)
