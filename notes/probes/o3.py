import pickle, io, pickletools, collections, datetime
from fickling.fickle import Pickled, StackedPickle
objs = [1, -5, 2**40, 2**70, "s", "é"*300, b"b"*300, None, True, [1,[2]], (1,2,3,4), {'k':[1]}, {1,2}, frozenset({1}), 1.5, collections.OrderedDict(a=1), datetime.date(2020,1,2), bytearray(b"x"), list(range(300)), ["s%d"%i for i in range(300)]]
bad=0; n=0; refused=collections.Counter()
for o in objs:
    for proto in range(6):
        b = pickle.dumps(o, proto)
        for tail in (b"", b"\x00junk", b".", b"K\x01."):
            for kind in ("bytes","seek","nonseek"):
                n+=1
                data=b+tail
                if kind=="bytes": src=data
                elif kind=="seek": src=io.BytesIO(data)
                else:
                    class NS(io.RawIOBase):
                        def __init__(s,d): s.b=io.BytesIO(d)
                        def read(s,n=-1): return s.b.read(n)
                        def seekable(s): return False
                        def readable(s): return True
                    src=NS(data)
                try:
                    p=Pickled.load(src)
                except NotImplementedError as e:
                    refused[str(e)[-20:]]+=1; continue
                if p.dumps()!=b: bad+=1; print("MISMATCH", type(o).__name__, proto, tail, kind)
                if kind=="seek" and (src.tell()!=len(b) or src.read()!=tail): bad+=1; print("POS", type(o).__name__, proto, tail, src.tell(), len(b))
print(n, bad, refused)
# stacked
ps=[pickle.dumps(o,p) for o in (1,[1],{'a':2}) for p in (0,2,4)]
sp=StackedPickle.load(b"".join(ps)); print(len(sp)==len(ps), all(x.dumps()==y for x,y in zip(sp,ps)))
