from fickling.analysis import Severity
from typing import List
ORDER = [Severity.LIKELY_SAFE, Severity.POSSIBLY_UNSAFE, Severity.SUSPICIOUS, Severity.LIKELY_UNSAFE, Severity.LIKELY_OVERTLY_MALICIOUS, Severity.OVERTLY_MALICIOUS]
def rank(s):
    for i, t in enumerate(ORDER):
        if s is t:
            return i

def order_ok(a: Severity, b: Severity) -> bool:
    """
    post: _
    """
    ra, rb = rank(a), rank(b)
    return ((a < b) == (ra < rb) and (a <= b) == (ra <= rb) and (a > b) == (ra > rb)
            and (a >= b) == (ra >= rb) and (a == b) == (ra == rb) and (a != b) == (ra != rb))

def order_witness(a: Severity, b: Severity) -> bool:
    """
    post: not _
    """
    return a < b
