from p5 import *
import fickling.fickle as F
# simulate the planned fix so the harness can be sized on a tree where the property holds
def _v(cls, obj):
    if not isinstance(obj, int) or isinstance(obj, bool): raise ValueError("not int")
    return obj
F.Int.validate = classmethod(_v)

def str_enc(x: str) -> bool:
    """
    pre: len(x) <= 3
    post: _
    """
    try:
        op = F.ConstantOpcode.new(x)
        data = op.encode()
    except (ValueError, NotImplementedError, OverflowError):
        return True
    try:
        u = x.encode("utf-8")
    except UnicodeEncodeError:
        return True
    return data == b"\x8c" + bytes([len(u)]) + u

def bytes_enc(x: bytes) -> bool:
    """
    pre: len(x) <= 3
    post: _
    """
    op = F.ConstantOpcode.new(x)
    data = op.encode()
    name, arg = decode_one(data)
    return arg == x and name == op.name

def bytes_len(n: int) -> bool:
    """
    pre: 250 <= n <= 260
    post: _
    """
    x = b"a" * n
    op = F.ConstantOpcode.new(x)
    data = op.encode()
    name, arg = decode_one(data)
    return arg == x and name == op.name and (name == "SHORT_BINBYTES") == (n <= 255)
