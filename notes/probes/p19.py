from p10 import *
from p5 import pure_unpack, pure_pack
import pickle as _p
_p.unpack = pure_unpack; _p.pack = pure_pack

class HMemo:
    """memo with an opaque hidden part: n hidden keys; membership of queried keys given by oracle"""
    def __init__(self, n, present):   # present: list of (key, bool) oracle answers supplied by the harness
        self.n = n; self.present = present; self.writes = []
    def _hidden_has(self, k):
        for kk, b in self.present:
            if kk == k: return b
        raise Hidden()
    def __len__(self):
        extra = 0
        seen = []
        for k, v in self.writes:
            if k in seen: continue
            seen.append(k)
            if not self._hidden_has(k): extra += 1
        return self.n + extra
    def __setitem__(self, k, v): self.writes.append((k, v))
    def __getitem__(self, k):
        for kk, v in reversed(self.writes):
            if kk == k: return v
        if self._hidden_has(k): return self.hidden_value
        raise KeyError(k)
    def __contains__(self, k):
        return any(kk == k for kk, _ in self.writes) or self._hidden_has(k)

def lemma_binput(h: int, hm: int, hl: int, n: int, arg: int, argp: bool, np_: bool, k0: int) -> bool:
    """
    pre: h >= 0 and hm >= 0 and hl >= 0 and n >= 0 and 0 <= arg < 256 and 0 <= k0 < 7
    pre: (not np_) or n > 0
    pre: (not argp) or n > 0
    post: _
    """
    kinds = [k0]
    op = F.BinPut(arg)
    it = Interpreter(Pickled([op]))
    it.stack._stack = HList(h, [mkF(k) for k in kinds])
    fm = HMemo(n, [(arg, argp), (n, np_)]); fm.hidden_value = ast.Constant(0)
    it.memory = fm
    vmm = HMemo(n, [(arg, argp), (n, np_)]); vmm.hidden_value = 0
    vm = build_vm(hm, hl, kinds, vmm, bytes([arg]))
    try:
        try:
            pickle._Unpickler.dispatch[ord("q")](vm); v_ok = True
        except Hidden: raise
        except Exception: v_ok = False
        try:
            it.step(); f_ok = True
        except Hidden: raise
        except Exception: f_ok = False
    except Hidden:
        return True
    if not (v_ok and f_ok):
        return True
    return [k for k, _ in fm.writes] == [k for k, _ in vmm.writes]

def lemma_memoize(h: int, hm: int, hl: int, n: int, np_: bool, k0: int) -> bool:
    """
    pre: h >= 0 and hm >= 0 and hl >= 0 and n >= 0 and 0 <= k0 < 7
    pre: (not np_) or n > 0
    post: _
    """
    kinds = [k0]
    op = F.Memoize()
    it = Interpreter(Pickled([op]))
    it.stack._stack = HList(h, [mkF(k) for k in kinds])
    fm = HMemo(n, [(n, np_)]); fm.hidden_value = ast.Constant(0)
    it.memory = fm
    vmm = HMemo(n, [(n, np_)]); vmm.hidden_value = 0
    vm = build_vm(hm, hl, kinds, vmm)
    try:
        try:
            pickle._Unpickler.dispatch[0x94](vm); v_ok = True
        except Hidden: raise
        except Exception: v_ok = False
        try:
            it.step(); f_ok = True
        except Hidden: raise
        except Exception: f_ok = False
    except Hidden:
        return True
    if not (v_ok and f_ok):
        return True
    return [k for k, _ in fm.writes] == [k for k, _ in vmm.writes] and len(fm.writes) == 1
