import sys, io, json
from typing import List
import fickling.cli as cli
import fickling.analysis as A
from fickling.analysis import Severity, AnalysisResult, AnalysisResults
from p8 import ORDER, rank

class FakeStdin:
    def __init__(self, data): self.buffer = io.BytesIO(data)

def cli_exit(sevs: List[int], pr: bool) -> bool:
    """
    pre: 1 <= len(sevs) <= 3
    pre: all(0 <= s < 6 for s in sevs)
    post: _
    """
    n = len(sevs)
    data = b"K\x01." * n
    calls = []
    def stub_check(pickled, analyzer=None, verbosity=None, json_output_path=None):
        i = len(calls); calls.append(json_output_path)
        s = ORDER[sevs[i]]
        return AnalysisResults(pickled, [] if s is Severity.LIKELY_SAFE else [AnalysisResult(s, "m", "n", "t")])
    o_stdin, o_check, o_out, o_err = sys.stdin, cli.check_safety, sys.stdout, sys.stderr
    sys.stdin, cli.check_safety = FakeStdin(data), stub_check
    sys.stdout, sys.stderr = io.StringIO(), io.StringIO()
    try:
        rc = cli.main(["fickling", "--check-safety", "-"] + (["--print-results"] if pr else []))
    finally:
        sys.stdin, cli.check_safety, sys.stdout, sys.stderr = o_stdin, o_check, o_out, o_err
    return len(calls) == n and rc == (0 if all(s == 0 for s in sevs) else 1)
