import itertools, collections
from fickling.fickle import Pickled
from fickling.analysis import check_safety, Severity
ORDER = ["LIKELY_SAFE","POSSIBLY_UNSAFE","SUSPICIOUS","LIKELY_UNSAFE","LIKELY_OVERTLY_MALICIOUS","OVERTLY_MALICIOUS"]
def U(s): b=s.encode(); return b"\x8c"+bytes([len(b)])+b
def resolve(kind, m, n):
    if kind=="GLOBAL": return b"c"+m.encode()+b"\n"+n.encode()+b"\n"
    if kind=="STACK_GLOBAL": return U(m)+U(n)+b"\x93"
def call(kind, res):
    if kind=="none": return res
    if kind=="REDUCE": return res+b"(S'a'\ntR"
    if kind=="REDUCE1": return res+b"S'a'\n\x85R"
    if kind=="OBJ": return b"("+res+b"S'a'\no"
    if kind=="NEWOBJ": return res+b"S'a'\n\x85\x81"
    if kind=="NEWOBJ_EX": return res+b"S'a'\n\x85}\x92"
def fate(kind, body):
    if kind=="result": return body+b"."
    if kind=="pop": return body+b"0N."
    if kind=="build": return body+b"}b."
    if kind=="inlist": return b"]"+body+b"a."
    if kind=="below": return body+b"N."
    if kind=="memo": return body+b"p0\n0g0\n."
VOC = [("builtins","eval",5,5),("__builtin__","exec",5,5),("builtins","open",5,5),("builtins","compile",5,5),
       ("builtins","getattr",3,0),("builtins","print",3,0),("__builtins__","__import__",3,0),
       ("os","system",4,4),("posix","system",4,4),("subprocess","Popen",4,4),("sys","exit",4,4),("socket","socket",4,4),
       ("shutil","rmtree",4,4),("urllib.request","urlopen",4,4),("os.path","join",4,4),("torch.hub","load",4,4),("dill","loads",4,4),("code","interact",4,4),("nt","system",4,4),
       ("zqvpkg","f",3,3),("zqvpkg.sub","g",3,3),("numpy","array",3,3),("torch","load",3,3),
       ("collections","OrderedDict",0,0)]
bad = collections.Counter(); total=0; exc=collections.Counter()
examples={}
for (m,n,fc,fi) in VOC:
    for rk in ("GLOBAL","STACK_GLOBAL"):
        for ck in ("none","REDUCE","REDUCE1","OBJ","NEWOBJ","NEWOBJ_EX"):
            for fk in ("result","pop","build","inlist","below","memo"):
                data = fate(fk, call(ck, resolve(rk,m,n)))
                floor = fi if ck=="none" else max(fc, fi)
                total+=1
                try:
                    sev = check_safety(Pickled.load(data)).severity.name
                except Exception as e:
                    exc[(type(e).__name__, ck, fk)] += 1; continue
                if ORDER.index(sev) < floor:
                    key=(m if fc!=fi or True else m, ck, fk)
                    bad[(f"{m}.{n}", ck, fk, sev, ORDER[floor])]+=1
                    examples.setdefault((ck,fk), data)
print("total", total, "violations", sum(bad.values()), "exceptions", sum(exc.values()))
agg = collections.Counter()
for (mn, ck, fk, sev, fl), c in bad.items(): agg[(mn, ck, sev, fl)] += c
for k, c in sorted(agg.items()): print(c, k)
print(exc.most_common(10))
