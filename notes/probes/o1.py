import ast, io, pickle, builtins, types
from fickling.fickle import Pickled

BUILTIN_FAMILY = ("builtins", "__builtin__", "__builtins__")
class Log(list): pass

def make_world():
    log = Log()
    registry = {}
    class Meta(type):
        def __call__(cls, *a, **k):
            log.append(("invoke", cls._id, canon(a), canon(k)))
            obj = object.__new__(cls); obj._args = a; obj._kw = k; obj._state = []
            return obj
    class Base(metaclass=Meta):
        _id = None
        def __new__(cls, *a, **k):   # reached by cls.__new__(cls, *args) (NEWOBJ) -- not via Meta.__call__
            log.append(("invoke", cls._id, canon(a), canon(k)))
            obj = object.__new__(cls); obj._args = a; obj._kw = k; obj._state = []
            return obj
        def __setstate__(self, st):
            log.append(("setstate", id_of(self), canon(st))); self._state.append(st)
        def __reduce_ex__(self, p): raise TypeError("stub")
    def stub(module, name):
        if module in BUILTIN_FAMILY: module = "builtins"
        key = (module, name)
        if key not in registry:
            registry[key] = Meta(name, (Base,), {"_id": key})
        return registry[key]
    return log, stub

def id_of(o): return getattr(type(o), "_id", None)

def canon(v, seen=None):
    if seen is None: seen = {}
    if isinstance(v, (int, float, str, bytes, type(None), bool)): return (type(v).__name__, v)
    if isinstance(v, type) and hasattr(v, "_id"): return ("global", v._id)
    if id(v) in seen: return ("ref", seen[id(v)])
    if isinstance(v, tuple): return ("tuple", tuple(canon(x, seen) for x in v))
    if isinstance(v, frozenset): return ("frozenset", tuple(sorted(repr(canon(x, seen)) for x in v)))
    seen[id(v)] = len(seen)
    if isinstance(v, list): return ("list", seen[id(v)], tuple(canon(x, seen) for x in v))
    if isinstance(v, dict): return ("dict", seen[id(v)], tuple((canon(k, seen), canon(x, seen)) for k, x in v.items()))
    if isinstance(v, set): return ("set", seen[id(v)], tuple(sorted(repr(canon(x, seen)) for x in v)))
    if hasattr(type(v), "_id"): return ("obj", seen[id(v)], type(v)._id, canon(v._args, seen), canon(v._kw, seen), canon(v._state, seen))
    return ("other", type(v).__name__)

def run_vm(data):
    log, stub = make_world()
    class VM(pickle._Unpickler):
        def find_class(self, m, n):
            log.append(("import", "builtins" if m in BUILTIN_FAMILY else m, n)); return stub(m, n)
        def persistent_load(self, pid):
            log.append(("persid", canon(pid))); return ("PERS", pid)
    try:
        return ("ok", canon(VM(io.BytesIO(data)).load()), log)
    except Exception as e:
        return ("err", type(e).__name__, log)

def run_decomp(data):
    try:
        src = ast.unparse(Pickled.load(data).ast)
    except Exception as e:
        return ("refused", type(e).__name__, None)
    log, stub = make_world()
    def imp(name, globals=None, locals=None, fromlist=(), level=0):
        m = types.ModuleType(name)
        for n in fromlist:
            log.append(("import", name, n)); setattr(m, n, stub(name, n))
        return m
    class B(dict):
        def __missing__(self, k): raise KeyError(k)
    bi = {n: stub("builtins", n) for n in dir(builtins) if not n.startswith("__") or n in ("__import__",)}
    for n in ("True", "False", "None", "frozenset", "set", "list", "dict", "tuple"): bi[n] = getattr(builtins, n)
    bi["__import__"] = imp
    class UNP:
        @staticmethod
        def persistent_load(pid): log.append(("persid", canon(pid))); return ("PERS", pid)
    env = {"__builtins__": bi, "UNPICKLER": UNP}
    try:
        exec(compile(src, "<decompiled>", "exec"), env)
    except Exception as e:
        return ("execerr", f"{type(e).__name__}: {e}", src)
    return ("ok", canon(env["result"]), log, src)

def compare(data, label=""):
    v = run_vm(data); d = run_decomp(data)
    if v[0] != "ok": return f"{label}: vm-rejects {v[1]}"
    if d[0] == "refused": return f"{label}: refused {d[1]}"
    if d[0] == "execerr": return f"{label}: EXECERR {d[1]} | {d[2]!r}"
    from collections import Counter
    vm_ev = Counter(map(repr, v[2])); dc_ev = Counter(map(repr, d[2]))
    missing = vm_ev - dc_ev
    val_ok = v[1] == d[1]
    return f"{label}: events_missing={dict(missing) if missing else 0} value_equal={val_ok}" + ("" if val_ok and not missing else f" | {d[3]!r}")

if __name__ == "__main__":
    import collections, datetime, fractions
    d = {'a': 1}
    objs = [1, -5, 2**40, "s", b"b", None, True, [1, [2]], (1, 2, 3, 4), {'k': [1]}, [d, d], {1, 2}, frozenset({1}), collections.OrderedDict(a=1), datetime.date(2020, 1, 2), fractions.Fraction(1, 3), 1.5, [], (), {}, ((),), [(1,), (1,)]]
    for o in objs:
        for proto in (0, 2, 4):
            print(compare(pickle.dumps(o, proto), f"{o!r} p{proto}"))
    print(compare(b'(c__builtin__\nexec\nS"x"\no0N.', "obj+pop"))
    print(compare(b'cos\nsystem\n(S"a"\ntR.', "os.system"))
    print(compare(b'ca\nf\ncb\nf\n\x86.', "same-name"))
    print(compare(b'(S"k"\nI1\nd.', "DICT"))
    print(compare(b'cm\nC\n)\x81}b.', "newobj+build"))
    print(compare(b'N(cm\nC\nI1\no0.', "obj+pop left"))
