"""C04 - detection floor: dangerous imports and calls are never rated LIKELY_SAFE.

Real code: Pickled.load, Interpreter (all opcodes), ASTProperties, every Analysis in Analysis.ALL
(incl. MLAllowlist), AnalysisContext.shorten_code, check_safety.  Programs are assembled from a
labelled vocabulary harvested from the live tree; what a program *does* is read off the reference
VM's event log; the floor is computed from that log by the property's own rules."""
from typing import List

from fickling.analysis import check_safety
from fickling.fickle import Pickled

from harness.c10 import NAMES
from vf import rt
from vf.engine import Lemma
from vf.gadgets import CALL, FATE, HEADER, MEMO_RT, RESOLVE, gadget, program, with_fate
from vf.refvm import run_vm
from vf.symlib import native, pin
from vf.vocab import BAD_BUILTINS, is_builtin_family, is_dangerous, is_nonstd, vocabulary

PROPERTY = "C04"
RULE = ("Programs = header | benign | resolve(module,name) x memo round trip x call form x fate | benign | STOP, all factors "
        "solver-partitioned; vocabulary harvested from /repo's tables and literals on every run.")
ASSUMPTIONS = [
    "finite product space: every factor is pinned (solver-certified exhaustive partition), programs run natively; memo keys, ints and argument lengths are listed samples, not symbolic (the analysis pipeline unparses constants, which realises symbolic ints digit by digit)",
    "ground truth of 'would resolve / would call' = event log of CPython's pure-Python unpickler with inert stub globals; stdlib membership from sys.stdlib_module_names (independent of the stdlib_list package fickling uses)",
    "floor only: severity >= floor(labels) or the analysis raises (fail-closed); an exact severity is never demanded except OVERTLY_MALICIOUS for calls of eval/exec/compile/open",
    "NEWOBJ/NEWOBJ_EX are not applied to builtins-family targets (the real VM cannot instantiate a builtin function that way)",
    "module/attribute names containing spaces or newlines are outside (GLOBAL's text format)",
    "__main__ is excluded from the labelled vocabulary (stdlib by the library reference, user code in practice): labelling it either way would demand more than the property states",
]

MODS, ATTRS = vocabulary()
AMBIGUOUS = ("__main__",)      # documented in the library reference yet holds user code: no floor demanded either way
MODS = [m for m in MODS if m not in AMBIGUOUS]
Q_MODS = [m for m in MODS if is_builtin_family(m) or is_dangerous(m) or m in
          ("collections", "datetime", "zqv_pkg", "zqv_pkg.sub", "numpy", "torch", "torch.storage", "operator", "zqv_os", "osx",
           "urllib2", "__main__", "_codecs", "numpy.testing._private.utils", "marshal")]
Q_ATTRS = [a for a in ATTRS if a in ("eval", "exec", "compile", "open", "getattr", "__import__", "print", "len", "system", "OrderedDict",
                                     "zqv_f", "load", "evaluate", "open_", "Popen", "_load_from_bytes", "getitem", "runstring", "_run_code",
                                     "execWrapper", "attrgetter", "dtype", "loads")]
REPS = [("__builtin__", "eval"), ("os", "system"), ("zqv_pkg.sub", "zqv_f"), ("builtins", "getattr"), ("collections", "OrderedDict")]
ARGS = ["", "a", "x" * 31, "x" * 32, "x" * 33, "x" * 64]
RANK = {n: i for i, n in enumerate(NAMES)}


def floor_of(log):
    """the property's floor for a reference-VM event log"""
    fl = 0
    exact5 = False
    for e in log:
        if e[0] == "import":
            m = e[1]
            if is_nonstd(m):
                fl = max(fl, 3)
            if is_dangerous(m):
                fl = max(fl, 4)
        elif e[0] == "invoke":
            m, n = e[1]
            if m == "builtins":
                if n in BAD_BUILTINS:
                    fl = 5
                    exact5 = True
                else:
                    fl = max(fl, 3)
            elif is_nonstd(m):
                fl = max(fl, 3)
        elif e[0] == "invoke-instance":
            fl = max(fl, 3)      # the callee was itself computed
    return fl


def holds(data):
    st, v, log, vm = run_vm(data)
    fl = floor_of(log)
    rt.reach(fl > 0)
    try:
        sev = check_safety(Pickled.load(data)).severity
    except Exception:
        return True              # fail-closed: nothing was rated
    return RANK[sev.name] >= fl


def _key(module, name, ck):
    return None


def make_vocab_lemma(shard, nshards):
    mods = Q_MODS_T[0][shard::nshards]

    def lem(mi: int, ni: int, rk: int, ck: int, fk: int) -> bool:
        """
        pre: 0 <= mi < 64 and 0 <= ni < 80 and 0 <= rk < 3 and 0 <= ck < 4 and 0 <= fk < 2
        post: _
        """
        if mi >= len(mods) or ni >= len(Q_ATTRS_T[0]):
            return True
        mi, ni, rk, ck, fk = pin(mi, 0, len(mods) - 1), pin(ni, 0, len(Q_ATTRS_T[0]) - 1), pin(rk, 0, 2), pin(ck, 0, 3), pin(fk, 0, 1)
        with native():
            module, name = mods[mi], Q_ATTRS_T[0][ni]
            g = gadget([0, 1, 5][rk], 0, [0, 1, 4, 5][ck], module, name)
            if g is None:
                return True
            if [0, 1, 4, 5][ck] in (5, 6) and is_builtin_family(module):
                return True
            data = program(0, 0, with_fate(g, [0, 1][fk]), 0)
            return holds(data)

    lem.__name__ = lem.__qualname__ = "vocab_%d" % shard
    return lem


def make_shape_lemma(ck):
    def lem(rep: int, rk: int, mrt: int, fk: int) -> bool:
        """
        pre: 0 <= rep < 5 and 0 <= rk < 7 and 0 <= mrt < 3 and 0 <= fk < 9
        post: _
        """
        rep, rk, mrt, fk = pin(rep, 0, len(REPS) - 1), pin(rk, 0, 6), pin(mrt, 0, 2), pin(fk, 0, 8)
        with native():
            module, name = REPS[rep]
            if ck in (5, 6) and is_builtin_family(module):
                return True
            g = gadget(rk, mrt, ck, module, name)
            if g is None:
                return True
            return holds(program(0, 0, with_fate(g, fk), 0))

    lem.__name__ = lem.__qualname__ = "shape_" + CALL[ck].replace("/", "_").replace("-", "_")
    return lem


def make_context(rep):
    def lem(ck: int, hdr: int, pre: int, post: int, ai: int, fk: int) -> bool:
        """
        pre: 0 <= ck < 3 and 0 <= hdr < 3 and 0 <= pre < 5 and 0 <= post < 3 and 0 <= ai < 6 and 0 <= fk < 3
        post: _
        """
        if QUICK[0] and (post != (pre % 3) or fk == 2):
            return True
        ck, hdr, pre, post, ai, fk = pin(ck, 0, 2), pin(hdr, 0, 2), pin(pre, 0, 4), pin(post, 0, 2), pin(ai, 0, 5), pin(fk, 0, 2)
        with native():
            module, name = REPS[rep]
            g = gadget(0, 0, [1, 4, 7][ck], module, name, arg=ARGS[ai])
            if g is None:
                return True
            return holds(program(hdr, pre, with_fate(g, [0, 1, 2][fk]), post))

    lem.__name__ = lem.__qualname__ = "context_%d" % rep
    return lem


QUICK = [True]


def make_two(c1):
    def lem(r1: int, r2: int, c2: int, f1: int, same_arg: bool) -> bool:
        """
        pre: 0 <= r1 < 5 and 0 <= r2 < 5 and 0 <= c2 < 8 and 0 <= f1 < 9
        post: _
        """
        # two gadgets in one program: the shared de-duplication set and the rule order interact across them
        if QUICK[0] and (r1 > 2 or r2 > 2 or f1 in (3, 4, 6)):
            return True
        r1, r2, c2, f1 = pin(r1, 0, 4), pin(r2, 0, 4), pin(c2, 0, 7), pin(f1, 0, 8)
        same = True if same_arg else False
        with native():
            (m1, n1), (m2, n2) = REPS[r1], REPS[r2]
            if (c1 in (5, 6) and is_builtin_family(m1)) or (c2 in (5, 6) and is_builtin_family(m2)):
                return True
            g1 = gadget(0, 0, c1, m1, n1, arg="x" * 40)
            g2 = gadget(0, 0, c2, m2, n2, arg="x" * 40 if same else "y" * 40)
            if g1 is None or g2 is None:
                return True
            # first gadget meets fate f1 and is then discarded (if anything is left), second is the result
            return holds(with_fate(g1, f1) + b"0" + g2 + b".")

    lem.__name__ = lem.__qualname__ = "two_gadgets_" + CALL[c1].replace("/", "_").replace("-", "_")
    return lem


BENIGN_MODS = ["platform", "collections", "unittest.mock", "shlex", "builtins"]
BAD_MODS = ["os", "subprocess", "zqv_pkg", "zqv_pkg.sub", "torch.hub", "posix", "__builtin__"]
SHADOW_NAMES = ["system", "call", "OrderedDict", "zqv_f", "eval", "Popen"]


def make_shadow(order):
    def lem(mg: int, mb: int, ni: int) -> bool:
        """
        pre: 0 <= mg < 5 and 0 <= mb < 7 and 0 <= ni < 6
        post: _
        """
        # the same attribute name resolved from a benign module and from a dangerous / non-stdlib one, in either order:
        # whatever the rules do per *name* must not hide the dangerous import or its call
        mg, mb, ni = pin(mg, 0, 4), pin(mb, 0, 6), pin(ni, 0, 5)
        if is_builtin_family(BAD_MODS[mb]) and not is_builtin_family(BENIGN_MODS[mg]) and SHADOW_NAMES[ni] not in BAD_BUILTINS:
            if rt.skip("shadowed-builtin"):
                return True
        with native():
            name = SHADOW_NAMES[ni]
            # resolve (3) x call (4) x fate (3) of the dangerous one are enumerated inside the cell
            for rk in range(3):
                for ck in range(4):
                    for fk in range(3):
                        good = gadget([0, 1, 0][rk], 0, 0, BENIGN_MODS[mg], name)
                        bad = gadget([0, 1, 5][rk], 0, [0, 1, 4, 3][ck], BAD_MODS[mb], name)
                        if good is None or bad is None:
                            continue
                        if order == 0:
                            data = good + b"0" + with_fate(bad, [0, 1, 2][fk]) + b"."
                        else:
                            data = with_fate(bad, [1, 2, 5][fk]) + b"0" + good + b"."
                        if not holds(data):
                            return False
            return True

    lem.__name__ = lem.__qualname__ = "shadow_%s_first" % ["benign", "dangerous"][order]
    return lem


Q_MODS_T = [Q_MODS]
Q_ATTRS_T = [Q_ATTRS]


def lemmas(tier):
    q = tier == "quick"
    Q_MODS_T[0] = Q_MODS if q else MODS
    Q_ATTRS_T[0] = Q_ATTRS if q else ATTRS
    L = []
    ns = 8
    for s in range(ns):
        L.append(Lemma("vocab_%d" % s, make_vocab_lemma(s, ns), timeout=300 if q else 3000, dry=[{"mi": 0, "ni": 0, "rk": 0, "ck": 1, "fk": 0}],
                       doc={"F": ["module from shard %d/%d of %d harvested+labelled modules" % (s, ns, len(Q_MODS_T[0])), "attribute from %d harvested names" % len(Q_ATTRS_T[0]),
                                  "resolve in GLOBAL/STACK_GLOBAL/INST", "call in none/REDUCE/OBJ/NEWOBJ", "fate in result/pop"], "bound": "single gadget, default context"}))
    for ck in range(len(CALL)):
        L.append(Lemma("shape_" + CALL[ck].replace("/", "_").replace("-", "_"), make_shape_lemma(ck), timeout=300 if q else 1500,
                       dry=[{"rep": 0, "rk": 0, "mrt": 0, "fk": 1}, {"rep": 1, "rk": 1, "mrt": 1, "fk": 2}],
                       doc={"F": ["5 representative globals %s" % (REPS,), "resolve (7): %s" % RESOLVE, "memo round trip (3)", "call=%s" % CALL[ck], "fate (9): %s" % FATE],
                            "bound": "single gadget"}))
    QUICK[0] = q
    for rep in range(len(REPS)):
        L.append(Lemma("context_%d" % rep, make_context(rep), timeout=300 if q else 1500, dry=[{"ck": 0, "hdr": 2, "pre": 2, "post": 2, "ai": 3, "fk": 1}],
                       doc={"F": ["global %s.%s" % REPS[rep], "protocol header (3)", "benign data before (5) / after (3)", "string argument length in 0,1,31,32,33,64 (the 32-character shortening boundary)",
                                  "call in REDUCE/OBJ/computed", "fate (3)"], "bound": "quick: one 'after' per 'before', 2 fates"}))
    for order in (0, 1):
        fn = make_shadow(order)
        L.append(Lemma(fn.__name__, fn, timeout=400 if q else 1500, dry=[{"mg": 0, "mb": 0, "ni": 0}],
                       doc={"F": ["solver-partitioned: same attribute name (6) from a benign module (5) and from a dangerous/non-stdlib module (7); %s import first" % ["benign", "dangerous"][order],
                                  "enumerated inside each cell: resolve (3) x call (4) x fate (3) of the dangerous one"], "bound": "two imports of one name"}))
    for c1 in range(len(CALL)):
        fn = make_two(c1)
        L.append(Lemma(fn.__name__, fn, timeout=400 if q else 2000, dry=[{"r1": 1, "r2": 0, "c2": 1, "f1": 1, "same_arg": True}],
                       doc={"F": ["two gadgets: first call form %s, second any of 8; globals from %s; 9 fates of the first; same/different long argument so that shortened texts collide" % (CALL[c1], REPS)],
                            "bound": "quick: 3x3 globals, 6 fates"}))
    return L
