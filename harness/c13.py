"""C13 - answers depend only on the bytes: deterministic, repeatable, no observer effect.

Real code: Pickled.load/ast/properties/dumps, Interpreter, ast.unparse, Trace.run, check_safety and
every rule, the has_*/imports summaries.  Query sequences over one parsed object are compared,
answer by answer, with the answers of a fresh parse of the same bytes."""
import ast
import contextlib
import hashlib
import io
import json
import os
import pickle
import subprocess
import sys
from typing import List

import fickling.tracing as tracing
from fickling.analysis import check_safety
from fickling.fickle import Interpreter, Pickled

from harness.c09 import TRACE_PROGS
from vf import rt
from vf.engine import Lemma
from vf.refvm import adump
from vf.symlib import native, pin

PROPERTY = "C13"
RULE = "Program and query sequence (alphabet of 15 read-only queries, length <= bound) are solver-partitioned; every answer is compared with a fresh parse."
ASSUMPTIONS = [
    "finite product space: programs x query sequences are pinned (solver-certified exhaustive partition), queries run natively",
    "an answer that raises must raise the same exception type on the fresh parse",
    "cross-process / hash-seed independence cannot be a solver variable: the `hashseed` lemma spawns fresh interpreters under PYTHONHASHSEED 1, 2 and 12345 and compares answer digests; reported separately, not part of the solver claim",
    "object addresses printed by FROZENSET nodes (a recorded C05 finding) are normalised before comparing text",
]

EXTRA = [b"czqv\nrebuild\n(" + b"".join(b"K" + bytes([100 + i]) for i in range(14)) + b"tR.",      # a call with 14 positional arguments
         b"czqv\nf\n(" + b"\x8c\x46" + b"x" * 70 + b"]\x94\x8c\x46" + b"y" * 70 + b"atR.",                  # long literals nested in a call / list
         b"0.", b"h\x05.", b"cos\nsystem\n0N\x90.",          # parse but cannot be interpreted: every view must keep raising
         b"(I1\nI2\nd(I3\nI4\nu.", b"czqv\nf\n(K\x01K\x02u.", b"czqv\nf\nK\x01K\x02s.",      # SETITEM(S) on a dict literal / on a global
 b"czqv\nf\n)R(K\x01K\x02u.", b"czqv\nf\n)RK\x01K\x02s.", b"]czqv\nf\n)Ra.",
         b"cos\nsystem\n(S'id'\ntRcposix\nsystem\n(S'x'\ntR\x86.", b"czqv\nf\nczqv\ng\nczqv\nh\n\x87.",
         b"\x80\x04\x80\x04N.", b"(S'k'\nI1\nS'j'\nI2\nd.", b"c__builtin__\neval\n(S'1'\ntR0c__builtin__\nexec\n(S'2'\ntR."]
# pairs that share an attribute name between a stdlib module and a non-stdlib one / builtins: state kept per *name*
# across pickles (instead of per analysed object) changes the second one's findings
SHADOW = [b"ccollections\nOrderedDict\n)R.", b"czqv\nOrderedDict\n)R.", b"c_codecs\nencode\n(X\x01\x00\x00\x00aX\x06\x00\x00\x00latin1tR.",
          b"czqv\nencode\n(X\x07\x00\x00\x00payloadtR.", b"coperator\ngetattr\n.", b"c__builtin__\ngetattr\n(X\x03\x00\x00\x00abcX\x05\x00\x00\x00uppertR."]
NATURAL = [pickle.dumps(o, p) for o in ([1, [2, 3]], {"a": {1, 2}, "b": (1, 2)}, [{"k": 1}] * 2) for p in (0, 2, 4)]
PROGS = list(TRACE_PROGS) + EXTRA + SHADOW + NATURAL

import re
_ADDR = re.compile(r"0x[0-9a-f]+")


def _norm(t):
    return _ADDR.sub("0x", t)


def _trace(p):
    buf = io.StringIO()
    with contextlib.redirect_stdout(buf):
        t = tracing.Trace(Interpreter(p)).run()
    return _norm(buf.getvalue()), adump(t)


def _trace_cli(p):
    buf = io.StringIO()
    with contextlib.redirect_stdout(buf):
        t = tracing.Trace(Interpreter(p, first_variable_id=5, result_variable="result2")).run()
    return _norm(ast.unparse(t))


QUERIES = [
    ("unparse", lambda p: _norm(ast.unparse(p.ast))),
    ("astdump", lambda p: adump(p.ast)),
    ("check_safety", lambda p: (lambda r: (r.severity.name, sorted((x.analysis_name or "", x.severity.name, _norm(str(x))) for x in r.results)))(check_safety(p))),
    ("imports", lambda p: [adump(n) for n in p.properties.imports]),
    ("calls", lambda p: [adump(n) for n in p.properties.calls]),
    ("has", lambda p: (p.has_import, p.has_call, p.has_non_setstate_call)),
    ("has_call", lambda p: p.has_call),                         # each summary also alone: asked first, nothing is cached yet
    ("has_nss_call", lambda p: p.has_non_setstate_call),
    ("unsafe_imports", lambda p: [adump(n) for n in p.unsafe_imports()]),
    ("nonstd_imports", lambda p: [adump(n) for n in p.non_standard_imports()]),
    ("trace", _trace),
    ("str_interp", lambda p: _norm(str(Interpreter(p)))),
    ("to_dict", lambda p: json.dumps(check_safety(p).to_dict(), sort_keys=True)),
    # the way the CLI decompiles the i-th stacked pickle: own variable numbering and result name
    ("cli_style", lambda p: _norm(ast.unparse(Interpreter(p, first_variable_id=3, result_variable="result7").to_ast()))),
    ("cli_style_trace", lambda p: _trace_cli(p)),
]


def ask(p, q):
    try:
        return ("ok", QUERIES[q][1](p))
    except Exception as e:
        return ("raise", type(e).__name__)


def make_lemma(first):
    def lem(i: int) -> bool:
        """
        pre: 0 <= i < 64
        post: _
        """
        if i >= len(PROGS):
            return True
        i = pin(i, 0, len(PROGS) - 1)
        with native():
            # the continuations of the sequence are enumerated inside the cell
            nq = len(QUERIES)
            seqs = [[first]] + [[first, a] for a in range(nq)] + [[first, a, b] for a in range(nq) for b in range(nq)]
            if QMAX[0] >= 4:
                seqs += [[first, a, b, c] for a in range(nq) for b in range(nq) for c in range(nq) if (a + b + c) % 5 == 0]
            for seq in seqs:
                if not _run(PROGS[i], seq):
                    LAST[0] = "program %r, queries %s" % (PROGS[i], [QUERIES[q][0] for q in seq])
                    return False
            return True

    lem.__name__ = lem.__qualname__ = "queries_" + QUERIES[first][0]
    return lem


LAST = [None]


def make_replay(first):
    lem = make_lemma(first)

    def replay(i):
        LAST[0] = None
        return None if lem(i) else (LAST[0] or "lemma returns False")
    return replay


def _run(data, seq):
    try:
        p = Pickled.load(data)
    except Exception:
        return True
    rt.reach(len(seq) > 1)
    for q in seq:
        got = ask(p, q)
        fresh = ask(Pickled.load(data), q)
        if got != fresh:
            return False
        if p.dumps() != data:
            return False
    # asking the same question again gives the same answer
    return ask(p, seq[0]) == ask(Pickled.load(data), seq[0])


QMAX = [3]


def digests(order=0):
    """digest of every answer for every program (used in-process and by the child interpreters).
    order 0: natural; 1: reversed (state leaking from one analysed pickle into the next shows as a different digest)"""
    out = []
    progs = list(PROGS) if order == 0 else list(reversed(PROGS))
    for data in progs:
        try:
            p = Pickled.load(data)
        except Exception as e:
            out.append("parse:" + type(e).__name__)
            continue
        h = hashlib.sha256()
        for q in range(len(QUERIES)):
            h.update(repr(ask(p, q)).encode())
        out.append(h.hexdigest())
    return out if order == 0 else list(reversed(out))


def hashseed(s: int) -> bool:
    """
    pre: 0 <= s < 4
    post: _
    """
    s = pin(s, 0, 3)
    with native():
        seed = ["1", "2", "12345", "7"][s]
        order = 1 if s == 3 else 0
        env = dict(os.environ, PYTHONHASHSEED=seed, PYTHONDONTWRITEBYTECODE="1")
        code = "import sys, json; sys.path.insert(0, %r); import harness.c13 as H; print(json.dumps(H.digests(%d)))" % (os.path.dirname(os.path.dirname(os.path.abspath(__file__))), order)
        r = subprocess.run([sys.executable, "-c", code], env=env, capture_output=True, text=True, timeout=300)
        if r.returncode != 0:
            raise RuntimeError("child failed: " + r.stderr[-500:])
        rt.reach()
        return json.loads(r.stdout.strip().splitlines()[-1]) == digests()


def lemmas(tier):
    q = tier == "quick"
    QMAX[0] = 3 if q else 4
    L = []
    for first in range(len(QUERIES)):
        fn = make_lemma(first)
        L.append(Lemma(fn.__name__, fn, timeout=400 if q else 3000, dry=[{"i": 4}, {"i": 1}], replay=make_replay(first),
                       doc={"F": ["%d programs (per-opcode coverage set, multi-import programs, natural pickles at protocols 0/2/4)" % len(PROGS),
                                  "solver-partitioned: program; enumerated per cell: every query sequence starting with %r of length <= 3 (and a fifth of the length-4 ones in thorough) over %s" % (QUERIES[first][0], [n for n, _ in QUERIES])],
                            "bound": "sequence length <= %d" % QMAX[0]}))
    L.append(Lemma("hashseed", hashseed, timeout=300, dry=[], twin=True,
                   doc={"F": ["fresh interpreters under PYTHONHASHSEED=1,2,12345 (natural program order) and 7 (reversed program order, so that state leaking from one analysed pickle into the next shows): digest of all answers for all programs equals the in-process digest"],
                        "bound": "not a solver claim (see ASSUMPTIONS)"}))
    return L
