"""C06 - parse / re-serialise is byte-exact; stacked pickles partition the input.

Real code: Pickled.make_stream/load/dumps/dump, Opcode.__new__/__init__/data/encode, StackedPickle.load,
pickletools.genops (CPython, pure Python).  Inputs are `prefix | code | arg | STOP | tail` with the
argument bytes, the tail and the skipped prefix as solver variables."""
import pickletools
from typing import List

import fickling.fickle as F
from fickling.fickle import Pickled, StackedPickle

from vf import rt
from vf.engine import Lemma
from vf.symlib import Collector, SymStream, native, pin, pure_struct

PROPERTY = "C06"
RULE = ("One lemma per argument-encoding family of pickletools.opcodes; opcode chosen by pinned index, argument "
        "bytes / length fields / payloads / trailing bytes / skipped prefix symbolic.")
ASSUMPTIONS = [
    "io.BytesIO as seen by fickling.fickle is replaced by a pure-Python stream with the same read/seek/tell contract (C boundary would realise symbolic bytes)",
    "struct.unpack as seen by pickletools is the pure-Python stand-in validated against C struct on boundary values at start-up",
    "text-decoded arguments (utf-8 / latin-1 / repr-quoted / decimal / float text) are drawn from listed samples, not symbolic; float8 payloads are samples",
    "an opcode fickling does not support must make load() raise NotImplementedError (refusal); any other outcome must round-trip",
    "non-seekable sources: only the byte-exact round trip is asserted, not how the source is read or what remains readable afterwards",
]

OPS = {o.name: o for o in pickletools.opcodes}
STOP = b"."
QUICK = [True]

FIXED = [o for o in pickletools.opcodes if o.arg is not None and o.arg.n > 0 and o.arg.name != "float8"]
NOARG = [o for o in pickletools.opcodes if o.arg is None and o.name != "STOP"]
LEN1 = ["SHORT_BINBYTES", "LONG1"]                      # 1-byte length + raw payload (kept symbolic)
LEN4 = ["BINBYTES", "LONG4"]                            # 4-byte length
LEN8 = ["BINBYTES8", "BYTEARRAY8"]                      # 8-byte length
TEXT_SAMPLES = {
    "INT": [b"0\n", b"1\n", b"01\n", b"00\n", b"-5\n", b"123456789012345678901\n", b" 7\n"],
    "GET": [b"0\n", b"12\n"], "PUT": [b"0\n", b"321987\n"],
    "LONG": [b"5L\n", b"-7L\n", b"0L\n", b"12345678901234567890123L\n", b"5\n"],
    "STRING": [b"'abc'\n", b'"a\\nb"\n', b"''\n", b"'\\x00\\xff'\n"],
    "UNICODE": [b"abc\n", b"\\u00e9\\n\n", b"\n", b"\xc3\xa9\n"],
    "FLOAT": [b"1.5\n", b"-0.0\n", b"inf\n", b"nan\n"],
    "GLOBAL": [b"os\nsystem\n", b"a.b\nc.d\n", b"\n\n"], "INST": [b"m\nC\n", b"__builtin__\nobject\n"],
    "PERSID": [b"pid\n", b"\n"],
    "SHORT_BINSTRING": [b"\x00", b"\x03abc", b"\x02\xff\x00"],
    "BINSTRING": [b"\x00\x00\x00\x00", b"\x02\x00\x00\x00hi"],
    "SHORT_BINUNICODE": [b"\x00", b"\x02os", b"\x02\xc3\xa9", b"\x03\xed\xa0\x80"],
    "BINUNICODE": [b"\x00\x00\x00\x00", b"\x04\x00\x00\x00eval"],
    "BINUNICODE8": [b"\x00" * 8, b"\x01" + b"\x00" * 7 + b"x"],
    "BINFLOAT": [b"\x00" * 8, b"\x3f\xf8" + b"\x00" * 6, b"\x7f\xf0" + b"\x00" * 6, b"\x7f\xf8" + b"\x00" * 6, b"\x80" + b"\x00" * 7],
}
TEXT = [(name, s) for name, ss in TEXT_SAMPLES.items() for s in ss]


class _BytesIOStub:
    """what fickling.fickle sees as BytesIO while a harness runs"""

    def __new__(cls, data=b""):
        return SymStream(data)


class patched_io:
    def __enter__(self):
        self.saved = F.BytesIO
        F.BytesIO = _BytesIOStub
        self.ps = pure_struct()
        self.ps.__enter__()

    def __exit__(self, *a):
        self.ps.__exit__(*a)
        F.BytesIO = self.saved


def _deliver(kind, prefix, body):
    """returns (argument for Pickled.load, source stream or None)"""
    if kind == 0:                      # seekable stream positioned after an arbitrary prefix
        s = SymStream(prefix + body)
        s.seek(len(prefix))
        s.log.clear()
        return s, s
    if kind == 1:                      # bytes object
        return body, None
    s = SymStream(body, seekable=False)   # non-seekable stream
    return s, s


def _roundtrip(kind, prefix, head, tail):
    """the assertion shared by all per-opcode lemmas. head = first complete pickle"""
    src, stream = _deliver(kind, prefix, head + tail)
    try:
        p = Pickled.load(src)
    except NotImplementedError:
        return "refused"
    out = p.dumps()
    c = Collector()
    p.dump(c)
    if out != head or c.getvalue() != head:
        return False
    if not isinstance(p[-1], F.Stop):
        return False
    if kind == 0:
        if stream.tell() != len(prefix) + len(head):
            return False
        if stream.read() != tail:
            return False
        if stream.data != prefix + head + tail:
            return False
    # non-seekable sources: nothing beyond dumps() == head is demanded (how the source is buffered is the
    # implementation's business; the property makes no claim about what remains readable there)
    return True


def fixed_arg(op: int, arg: bytes, tail: bytes, prefix: bytes, kind: int) -> bool:
    """
    pre: 0 <= op < 64 and len(arg) <= 8 and len(tail) <= 2 and len(prefix) <= 2 and 0 <= kind < 3
    post: _
    """
    if op >= len(FIXED):
        return True
    op = pin(op, 0, len(FIXED) - 1)
    kind = pin(kind, 0, 2)
    info = FIXED[op]
    if len(arg) != info.arg.n:
        return True
    if kind != 0 and len(prefix) != 0:
        return True
    head = info.code.encode("latin-1") + arg + STOP
    with patched_io():
        r = _roundtrip(kind, prefix, head, tail)
    supported = info.name in F.OPCODES_BY_NAME
    rt.reach(supported)
    if r == "refused":
        return not supported
    return r


def no_arg(op: int, tail: bytes, prefix: bytes, kind: int) -> bool:
    """
    pre: 0 <= op < 64 and len(tail) <= 2 and len(prefix) <= 2 and 0 <= kind < 3
    post: _
    """
    if op >= len(NOARG):
        return True
    op = pin(op, 0, len(NOARG) - 1)
    kind = pin(kind, 0, 2)
    info = NOARG[op]
    if kind != 0 and len(prefix) != 0:
        return True
    head = info.code.encode("latin-1") + STOP
    with patched_io():
        r = _roundtrip(kind, prefix, head, tail)
    supported = info.name in F.OPCODES_BY_NAME
    rt.reach(supported)
    if r == "refused":
        return not supported
    return r


def _lenprefixed(names, width):
    def lem(op: int, n: int, payload: bytes, tail: bytes, kind: int) -> bool:
        """
        pre: 0 <= op < 2 and 0 <= n <= 3 and len(payload) == n and len(tail) <= 2 and 0 <= kind < 3
        post: _
        """
        op = pin(op, 0, len(names) - 1)
        kind = pin(kind, 0, 2)
        info = OPS[names[op]]
        head = info.code.encode("latin-1") + n.to_bytes(width, "little") + payload + STOP
        with patched_io():
            r = _roundtrip(kind, b"", head, tail)
        supported = info.name in F.OPCODES_BY_NAME
        rt.reach(supported)
        if r == "refused":
            return not supported
        return r
    lem.__name__ = lem.__qualname__ = "len%d_payload" % width
    return lem


def pair_variable(op: int, n1: int, p1: bytes, n2: int, p2: bytes, x: int, tail: bytes) -> bool:
    """
    pre: 0 <= op < 4 and 0 <= n1 <= 2 and len(p1) == n1 and 0 <= n2 <= 2 and len(p2) == n2
    pre: 0 <= x < 256 and len(tail) <= 1
    post: _
    """
    # a variable-length opcode followed by another opcode: exercises "slice the previous opcode's
    # bytes on the next iteration" with both lengths symbolic
    op = pin(op, 0, 3)
    a = b"C" + bytes([n1]) + p1
    if op == 0:
        b = b"C" + bytes([n2]) + p2
    elif op == 1:
        b = b"B" + n2.to_bytes(4, "little") + p2
    elif op == 2:
        b = b"K" + bytes([x])
    else:
        b = b"\x8a" + bytes([n2]) + p2
    head = a + b + b"\x86" + STOP
    with patched_io():
        r = _roundtrip(0, b"", head, tail)
    rt.reach()
    return r is True


def text_args(i: int, tail: bytes, kind: int) -> bool:
    """
    pre: 0 <= i < 128 and len(tail) <= 2 and 0 <= kind < 3
    post: _
    """
    if i >= len(TEXT):
        return True
    i = pin(i, 0, len(TEXT) - 1)
    kind = pin(kind, 0, 2)
    name, arg = TEXT[i]
    info = OPS[name]
    head = info.code.encode("latin-1") + arg + STOP
    with patched_io():
        try:
            r = _roundtrip(kind, b"", head, tail)
        except F.PickleDecodeError:
            # genops itself rejects this argument text (not a complete pickle): nothing to round-trip
            return True
    supported = name in F.OPCODES_BY_NAME
    rt.reach(supported)
    if r == "refused":
        return not supported
    return r


def parse_sequence(i: int, j: int) -> bool:
    """
    pre: 0 <= i < 128 and 0 <= j < 128
    post: _
    """
    # parsing one pickle must not influence how the next one re-serialises (caches keyed by values that compare
    # equal, interned opcode objects, ...): parse sample i, then sample j in the same interpreter; j must round-trip
    if i >= len(TEXT) or j >= len(TEXT):
        return True
    i, j = pin(i, 0, len(TEXT) - 1), pin(j, 0, len(TEXT) - 1)
    with native():
        (n1, a1), (n2, a2) = TEXT[i], TEXT[j]
        h1 = OPS[n1].code.encode("latin-1") + a1 + STOP
        h2 = OPS[n2].code.encode("latin-1") + a2 + STOP
        try:
            Pickled.load(h1).dumps()
        except Exception:
            pass
        try:
            p = Pickled.load(h2 + b"tail")
        except (NotImplementedError, F.PickleDecodeError):
            return True
        rt.reach()
        both = StackedPickle.load(h2 + h2)
        return p.dumps() == h2 and [q.dumps() for q in both] == [h2, h2]


def stack_partition(k: int, xs: List[int], n: int, payload: bytes, kind: int) -> bool:
    """
    pre: 1 <= k <= 3 and len(xs) == 3 and all(0 <= x < 256 for x in xs)
    pre: 0 <= n <= 2 and len(payload) == n and 0 <= kind < 3
    post: _
    """
    k = pin(k, 1, 3)
    kind = pin(kind, 0, 2)
    parts = []
    for j in range(k):
        if j == 1:
            parts.append(b"C" + bytes([n]) + payload + b"q" + bytes([xs[j]]) + STOP)
        else:
            parts.append(b"K" + bytes([xs[j]]) + STOP)
    data = b"".join(parts)
    src, stream = _deliver(kind, b"", data)
    with patched_io():
        sp = StackedPickle.load(src)
    rt.reach(k > 1)
    if len(sp) != k:
        return False
    got = [p.dumps() for p in sp]
    if got != parts:
        return False
    return b"".join(got) == data


def stack_trailing_garbage(x: int, g: int) -> bool:
    """
    pre: 0 <= x < 256 and 0 <= g < 256
    post: _
    """
    # one pickle followed by a single arbitrary byte: either the stack loader raises (garbage is not
    # a pickle) or it returns parts that still concatenate to a prefix-partition of the input
    data = b"K" + bytes([x]) + STOP + bytes([g])
    with patched_io():
        try:
            sp = StackedPickle.load(SymStream(data))
        except (F.PickleDecodeError, NotImplementedError):
            rt.reach()
            return True
    rt.reach()
    got = b"".join(p.dumps() for p in sp)
    return sp[0].dumps() == data[:3] and (got == data or got == data[:3])


def natural_pickles(i: int, proto: int, kind: int, tail: bytes) -> bool:
    """
    pre: 0 <= i < 16 and 0 <= proto <= 5 and 0 <= kind < 3 and len(tail) <= 2
    post: _
    """
    import pickle
    i, proto, kind = pin(i, 0, 15), pin(proto, 0, 5), pin(kind, 0, 2)
    if QUICK[0] and (kind != (i + proto) % 3):
        return True
    with native():
        import collections
        import datetime
        d = {"a": 1}
        objs = [0, -1, 255, 256, 65535, 65536, 2 ** 31, -2 ** 31 - 1, 2 ** 70, "s" * 300, b"b" * 300, [d, d, (1, 2, 3, 4)],
                {1, 2}, frozenset({3}), collections.OrderedDict(a=1), datetime.date(2020, 1, 2)]
        head = pickle.dumps(objs[i], proto)
        stock_end = _stock_end(head + b"XY")
    if stock_end != len(head):
        return True
    with patched_io():
        r = _roundtrip(kind, b"", head, tail)
    rt.reach()
    return r is True or r == "refused"


def raw_two(a: int, b: int, tail: bytes) -> bool:
    """
    pre: 0 <= a < 256 and 0 <= b < 256 and len(tail) <= 1
    post: _
    """
    # two arbitrary bytes followed by STOP: whatever the parser accepts must round-trip and stop where the
    # stock tokeniser stops; what it rejects must raise (never return a Pickled that re-serialises differently)
    data = bytes([a, b]) + STOP + tail
    with patched_io():
        s = SymStream(data)
        try:
            p = Pickled.load(s)
        except (NotImplementedError, F.PickleDecodeError, ValueError, IndexError, UnicodeDecodeError, KeyError, OverflowError):
            return True
        rt.reach()
        out = p.dumps()
        if data[:len(out)] != out or s.tell() != len(out):
            return False
        ref = SymStream(data)
        n = 0
        for info, arg, pos in pickletools.genops(ref):
            n += 1
        return n == len(p) and ref.tell() == len(out) and isinstance(p[-1], F.Stop)


def _stock_end(data):
    import io
    import pickle
    f = io.BytesIO(data)
    pickle.Unpickler(f).load()
    return f.tell()


def _ti(name, k):
    return [t for t, (n, a) in enumerate(TEXT) if n == name][k]


def lemmas(tier):
    from vf.symlib import validate_pure_struct
    validate_pure_struct()
    q = tier == "quick"
    QUICK[0] = q
    S_common = ["tail: arbitrary bytes following the pickle (len<=2)", "prefix: bytes before the start offset (len<=2, seekable kind)"]
    L = [
        Lemma("fixed_arg", fixed_arg, timeout=240 if q else 900,
              dry=[{"op": 0, "arg": b"\x01\x00\x00\x00", "tail": b"x", "prefix": b"", "kind": 0}],
              doc={"S": ["arg: every value of the opcode's fixed-width argument (1/2/4/8 bytes)"] + S_common,
                   "F": ["opcode: %s" % ",".join(o.name for o in FIXED), "delivery kind: seekable/bytes/non-seekable"],
                   "bound": "single argument-carrying opcode followed by STOP"}),
        Lemma("no_arg", no_arg, timeout=240 if q else 900,
              dry=[{"op": 3, "tail": b"", "prefix": b"ab", "kind": 0}],
              doc={"S": S_common, "F": ["opcode: all %d argument-less opcodes" % len(NOARG), "delivery kind"],
                   "bound": "single opcode followed by STOP"}),
        Lemma("len1_payload", _lenprefixed(LEN1, 1), timeout=240 if q else 900,
              dry=[{"op": 0, "n": 2, "payload": b"hi", "tail": b"", "kind": 0}],
              doc={"S": ["n: length field 0..3", "payload: n arbitrary bytes", "tail"], "F": ["opcode in %s" % LEN1, "delivery kind"],
                   "bound": "payload <= 3 bytes"}),
        Lemma("len4_payload", _lenprefixed(LEN4, 4), timeout=240 if q else 900,
              dry=[{"op": 1, "n": 1, "payload": b"\x05", "tail": b"Z", "kind": 1}],
              doc={"S": ["n: 4-byte length field 0..3", "payload", "tail"], "F": ["opcode in %s" % LEN4, "delivery kind"], "bound": "payload <= 3 bytes"}),
        Lemma("len8_payload", _lenprefixed(LEN8, 8), timeout=240 if q else 900,
              dry=[{"op": 0, "n": 0, "payload": b"", "tail": b"", "kind": 2}],
              doc={"S": ["n: 8-byte length field 0..3", "payload", "tail"], "F": ["opcode in %s" % LEN8, "delivery kind"], "bound": "payload <= 3 bytes"}),
        Lemma("pair_variable", pair_variable, timeout=240 if q else 900,
              dry=[{"op": 1, "n1": 1, "p1": b"a", "n2": 2, "p2": b"bc", "x": 0, "tail": b""}],
              doc={"S": ["both length fields and payloads, BININT1 value, tail"], "F": ["second opcode: SHORT_BINBYTES/BINBYTES/BININT1/LONG1"],
                   "bound": "payloads <= 2 bytes"}),
        Lemma("text_args", text_args, timeout=240 if q else 900,
              dry=[{"i": 0, "tail": b"", "kind": 0}],
              doc={"S": ["tail"], "F": ["%d (opcode, text argument) samples" % len(TEXT), "delivery kind"],
                   "bound": "text arguments are listed samples"}),
        Lemma("parse_sequence", parse_sequence, timeout=240 if q else 900,
              dry=[{"i": _ti("BINFLOAT", 0), "j": _ti("BINFLOAT", 4)}, {"i": _ti("BINFLOAT", 4), "j": _ti("BINFLOAT", 0)}, {"i": _ti("INT", 1), "j": _ti("INT", 2)}],
              doc={"F": ["ordered pairs of the %d (opcode, text argument) samples parsed one after the other in one interpreter (0.0 / -0.0, 1 / 01 / True ...)" % len(TEXT)],
                   "bound": "pairs of single-opcode pickles"}),
        Lemma("stack_partition", stack_partition, timeout=240 if q else 900,
              dry=[{"k": 3, "xs": [1, 2, 3], "n": 1, "payload": b"p", "kind": 0}],
              doc={"S": ["every pickle's payload byte, the middle pickle's length field/payload/memo index"], "F": ["k=1..3", "delivery kind"],
                   "bound": "k<=3 pickles"}),
        Lemma("stack_trailing_garbage", stack_trailing_garbage, timeout=240 if q else 900,
              dry=[{"x": 1, "g": 0x2e}],
              doc={"S": ["x", "g: the single trailing byte (all 256 values)"], "bound": "one trailing byte"}),
        Lemma("natural_pickles", natural_pickles, timeout=240 if q else 900,
              dry=[{"i": 11, "proto": 4, "kind": 0, "tail": b"."}],
              doc={"S": ["tail"], "F": ["16 objects x protocols 0-5 x delivery kind (quick: one kind per (object, protocol), rotating), pickled by the stock pickler; stock unpickler's stop position delimits the first pickle"],
                   "bound": "listed objects"}),
    ]
    L.append(Lemma("raw_two", raw_two, timeout=60 if q else 600, dry=[{"a": 0x4b, "b": 5, "tail": b""}, {"a": 0x2e, "b": 0x2e, "tail": b"."}],
                   doc={"S": ["a, b: two fully arbitrary leading bytes (symbolic opcode and argument)", "tail"], "bound": "2 raw bytes + STOP; a solver search, exhaustion not expected in quick"}))
    return L
