"""C07 (scope: pickle-module level) - the safe ML environment mediates every global, also in nested unpicklings.

Real code: hook.activate_safe_ml_environment / remove_hook, FicklingMLUnpickler.__init__ / find_class.
Nested unpicklings are reached through loader stand-ins that are allow-listed via also_allow and model,
without torch, the ways a nested load reaches the pickle module: pickle.loads(b), pickle.load(BytesIO(b)),
pickle.Unpickler(BytesIO(b)).load() and their _pickle twins (the code paths torch's bare / zip / legacy
readers use).  Monitor: CPython's own 'pickle.find_class' audit event + an inert sink's call log."""
import io
import pickle
import sys
import types
from typing import List

import _pickle
import fickling.hook as hook
from fickling.exception import UnsafeFileError
from fickling.ml import ML_ALLOWLIST, FicklingMLUnpickler

from harness.c02 import _ARMED, _FIND, _SINK_LOG, _ensure_sink
from vf import rt
from vf.engine import Lemma
from vf.symlib import native, pin

PROPERTY = "C07"
RULE = "Entry point, additions, nesting depth, loader stand-in per level and the globals of the innermost program are solver-partitioned; finite, native after pinning."
ASSUMPTIONS = [
    "scope: mediation at the pickle-module level; real torch containers (torch.load is C++/zip I/O) are outside - the stand-ins reproduce which pickle-module entry point each container format's reader uses",
    "finite product, pinned (solver-certified exhaustive partition); monitor = 'pickle.find_class' audit events raised by the interpreter itself between entry to and exit from the outermost hooked call, plus the sink's call log",
    "allowed set = ML_ALLOWLIST at import time + the also_allow list of the activation",
]

VIA = ["loads", "load", "Unpickler", "c_loads", "c_load", "c_Unpickler", "direct:pickle.loads", "direct:_pickle.loads"]
# the last two are the pickle-module functions themselves, allow-listed by the user and named directly by the outer pickle


def _ensure_loader():
    if "zqv_loader" in sys.modules:
        return
    m = types.ModuleType("zqv_loader")
    m.via_loads = lambda b: pickle.loads(b)
    m.via_load = lambda b: pickle.load(io.BytesIO(b))
    m.via_Unpickler = lambda b: pickle.Unpickler(io.BytesIO(b)).load()
    m.via_c_loads = lambda b: _pickle.loads(b)
    m.via_c_load = lambda b: _pickle.load(io.BytesIO(b))
    m.via_c_Unpickler = lambda b: _pickle.Unpickler(io.BytesIO(b)).load()
    for n in list(vars(m)):
        if n.startswith("via_"):
            getattr(m, n).__module__ = "zqv_loader"
            getattr(m, n).__qualname__ = n
    sys.modules["zqv_loader"] = m


def bbytes(b):
    if len(b) < 256:
        return b"C" + bytes([len(b)]) + b
    return b"B" + len(b).to_bytes(4, "little") + b


def _sbu(s):
    b = s.encode()
    return b"\x8c" + bytes([len(b)]) + b


INNER = [
    ("benign-data", b"]q\x00(K\x01K\x02e.", True),
    ("allowed-global", b"ccollections\nOrderedDict\n)R.", True),
    ("allowed-then-sink", b"ccollections\nOrderedDict\n)R0czqv_sink\nf\n(K\x01tR.", False),
    ("sink-call", b"czqv_sink\nf\n(K\x01tR.", False),
    ("sink-resolve-only", b"czqv_sink\nf\n.", False),
    ("sink-stack-global", b"\x8c\x08zqv_sink\x8c\x01f\x93)R.", False),
    ("sink-inst", b"(K\x01izqv_sink\nf\n.", False),
    ("sink-obj", b"(czqv_sink\nf\nK\x01o.", False),
    ("os-system", b"cos\nsystem\n(S'true'\ntR.", False),
    ("added-global", b"czqv_ok\ng\n.", "added"),
    ("allowed-module-other-member", b"ccollections\nChainMap\n.", False),
    # protocol-4 dotted qualified names: the unpickler walks the attribute chain, so only an exact allowlist entry may pass
    ("dotted-qualname-call", b"\x80\x04" + _sbu("collections") + _sbu("OrderedDict.fromkeys") + b"\x93" + _sbu("ab") + b"\x85R.", False),
    ("dotted-qualname-globals", b"\x80\x04" + _sbu("argparse") + _sbu("Namespace.__init__.__globals__") + b"\x93.", False),
    ("dotted-qualname-global-opcode", b"\x80\x04ccollections\nOrderedDict.fromkeys\n.", False),
]


def wrap(inner, vias):
    data = inner
    for v in reversed(vias):
        if VIA[v].startswith("direct:"):
            mod, name = VIA[v][7:].rsplit(".", 1)
            data = ("c%s\n%s\n" % (mod, name)).encode() + b"(" + bbytes(data) + b"tR."
        else:
            data = ("czqv_loader\nvia_%s\n" % VIA[v]).encode() + b"(" + bbytes(data) + b"tR."
    return data


def make_mediated(entry, depth):
    def lem(v0: int, v1: int, v2: int) -> bool:
        """
        pre: 0 <= v0 < 8 and 0 <= v1 < 8 and 0 <= v2 < 8
        post: _
        """
        vias = []
        for i, v in enumerate((v0, v1, v2)):
            if i < depth:
                vias.append(pin(v, 0, len(VIA) - 1))
            elif v != 0:
                return True
        key = "nested-via-Unpickler-class" if any(VIA[v].endswith("Unpickler") for v in vias) else None
        if rt.skip(key):
            return True
        with native():
            # additions and innermost programs are enumerated inside the cell
            # narrow additions, wide additions, narrow again: an activation must not inherit anything from the previous one
            for adds in (0, 1, 0):
                for inner in range(len(INNER)):
                    if not _mediated(entry, adds, vias, inner):
                        LAST[0] = "entry=%s vias=%s adds=%d inner=%s" % (["pickle.load", "pickle.loads", "_pickle.load", "_pickle.loads"][entry], [VIA[v] for v in vias], adds, INNER[inner][0])
                        return False
            return True

    lem.__name__ = lem.__qualname__ = "mediated_%s_d%d" % (["load", "loads", "cload", "cloads"][entry], depth)
    return lem


LAST = [None]


def make_replay(entry, depth):
    lem = make_mediated(entry, depth)

    def replay(v0, v1, v2):
        LAST[0] = None
        return None if lem(v0, v1, v2) else (LAST[0] or "lemma returns False")
    return replay


def _mediated(entry, adds, vias, inner):
    _ensure_sink()
    _ensure_loader()
    name, prog, ok_expected = INNER[inner]
    data = wrap(prog, vias)
    also = ["zqv_loader.via_%s" % v for v in VIA if not v.startswith("direct:")] + [v[7:] for v in VIA if v.startswith("direct:")]
    if adds:
        also += ["zqv_ok.g", "collections.deque"]
    allowed = {(m, n) for m, d in ML_ALLOWLIST.items() for n in d} | {tuple(a.rsplit(".", 1)) for a in also}
    if "zqv_ok" not in sys.modules:
        m = types.ModuleType("zqv_ok")
        m.g = lambda *a: "ok"
        sys.modules["zqv_ok"] = m
    del _SINK_LOG[:], _FIND[:]
    outcome = None
    try:
        hook.activate_safe_ml_environment(also_allow=also)
        fn = [pickle.load, pickle.loads, _pickle.load, _pickle.loads][entry]
        arg = io.BytesIO(data) if entry in (0, 2) else data
        _ARMED[0] = True
        try:
            fn(arg)
            outcome = "ret"
        except UnsafeFileError:
            outcome = "unsafe"
        except Exception as e:
            outcome = "raised:" + type(e).__name__
    finally:
        _ARMED[0] = False
        hook.remove_hook()
    rt.reach()
    resolved = set(_FIND)
    if not resolved <= allowed:
        return False                      # a global outside the allowed set was resolved somewhere in the call tree
    if _SINK_LOG:
        return False
    want_ok = ok_expected is True or (ok_expected == "added" and adds == 1)
    if want_ok:
        return outcome == "ret"
    return outcome == "unsafe"


def find_class_lemma(mi: int, ni: int, adds: int) -> bool:
    """
    pre: 0 <= mi < 12 and 0 <= ni < 10 and 0 <= adds < 3
    post: _
    """
    # super().find_class is reached iff (module, name) is allowed; otherwise UnsafeFileError, nothing resolved
    mods = ["collections", "os", "zqv_sink", "zqv_ok", "numpy", "builtins", "collections.abc", "collection", "_codecs", "torch", "zqv_ok.sub", ""]
    names = ["OrderedDict", "system", "f", "g", "dtype", "eval", "defaultdict", "encode", "OrderedDict.fromkeys", "defaultdict.__init__.__globals__"]
    mi, ni, adds = pin(mi, 0, len(mods) - 1), pin(ni, 0, len(names) - 1), pin(adds, 0, 2)
    with native():
        _ensure_sink()
        also = [None, ["zqv_ok.g"], ["zqv_ok.g", "collections.system", "zqv_ok.sub.f"]][adds]
        allowed = {(m, n) for m, d in ML_ALLOWLIST.items() for n in d} | ({tuple(a.rsplit(".", 1)) for a in also} if also else set())
        u = FicklingMLUnpickler(io.BytesIO(b"N."), also_allow=also)
        del _FIND[:]
        _ARMED[0] = True
        try:
            try:
                u.find_class(mods[mi], names[ni])
                out = "resolved"
            except UnsafeFileError:
                out = "unsafe"
            except Exception:
                out = "passed-check"          # reached the real import, which failed (fictitious module)
        finally:
            _ARMED[0] = False
        rt.reach()
        is_allowed = (mods[mi], names[ni]) in allowed
        if is_allowed:
            return out in ("resolved", "passed-check")
        return out == "unsafe" and not _FIND


QUICK = [True]


def lemmas(tier):
    q = tier == "quick"
    QUICK[0] = q
    L = []
    for entry in range(4):
        for depth in range(4):
            fn = make_mediated(entry, depth)
            L.append(Lemma(fn.__name__, fn, timeout=400 if q else 2000, replay=make_replay(entry, depth),
                           dry=[{"v0": 0, "v1": 0, "v2": 0}, {"v0": 1 if depth else 0, "v1": 3 if depth > 1 else 0, "v2": 0}],
                           doc={"F": ["solver-partitioned: loader stand-in per nesting level (8 each): %s" % VIA,
                                      "enumerated inside each cell: additions (narrow, wide, narrow) x innermost program (14: benign, allow-listed, sink through every global/call opcode, os.system, added global, other member of an allow-listed module)",
                                      "entry point %s, nesting depth %d" % (["pickle.load", "pickle.loads", "_pickle.load", "_pickle.loads"][entry], depth)],
                                "bound": "depth <= 3"}))
    return L + [
        Lemma("find_class_lemma", find_class_lemma, timeout=200, dry=[{"mi": 0, "ni": 0, "adds": 0}, {"mi": 2, "ni": 2, "adds": 1}],
              doc={"F": ["12 modules x 8 names x 3 addition sets: super().find_class reached iff allowed"], "bound": "listed names"}),
    ]
