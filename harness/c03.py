"""C03 (no hidden execution) and C05 (value preservation): one harness family, two oracles.

Lockstep refinement from a hidden base: both machines start on a stack of unknown depth, run a
builder prefix (two slots, optional memoisation), the opcode under test and an observer suffix.
Real code: Pickled.load, Interpreter.run, every Opcode.run, ast.unparse.  Reference: CPython's
pure-Python unpickler with inert logging stubs; the decompiled source is executed against the same
kind of stubs.  C03 oracle: VM events (imports, invocations, setstate, persistent ids) are a
sub-multiset of the decompiled program's events.  C05 oracle: canonical result values are equal."""
import ast
import pickle
from typing import List

import fickling.fickle as F
from fickling.fickle import Interpreter, Pickled

from vf import rt
from vf.engine import Lemma
from vf.refvm import (BUILTIN_FAMILY, LoggingVM, canon, exec_decompiled, make_world, missing_events, strip_ids, vcanon)
from vf.symlib import HList, SymStream, concretize, native, pin

PROPERTY = "C03"
RULE = ("Programs = hidden base | builder(13) memo(3) | builder(13) memo(3) | opcode under test | observer, all pinned; hidden "
        "depths symbolic. Event log of the reference VM vs event log of the executed decompiled source; canonical result values.")
ASSUMPTIONS = [
    "reference = CPython's pure-Python pickle._Unpickler with find_class/persistent_load returning inert logging stubs; decompiled source is exec'd with __import__, every builtin name and UNPICKLER bound to the same kind of stubs",
    "builtins-family imports are equated with bare names (fickling's stated convention): an import event for builtins/__builtin__ is not required of the decompiled program",
    "premise: the reference VM accepts the program and fickling decompiles it (Pickled.load + Interpreter.run + ast.unparse succeed); refusal by fickling is always acceptable",
    "values are compared structurally without object identity (sharing is compared only through its effect on the value)",
    "programs reaching below the hidden base are outside (counted); builder prefix of two slots; one opcode under test; finite product, pinned, native after pinning except for the hidden-depth branches",
    "identifiers with spaces/newlines are outside",
]

BUILD = [
    b"K\x07",                 # int
    b"]",                     # empty list
    b"]K\x01a",               # list [1]
    b"}",                     # empty dict
    b"}K\x01K\x02s",          # dict via SETITEM
    b"(K\x01K\x02d",          # dict via DICT
    b"\x8f",                  # empty set
    b"(K\x01K\x02t",          # tuple
    b"czqv_m\nf\n",           # global
    b"czqv_m\nf\n)R",         # REDUCE result
    b"(czqv_m\nC\nK\x05o",    # OBJ result
    b"czqv_m\nC\n)\x81",      # NEWOBJ result
    b"(",                     # MARK
    b"\x8c\x01k",             # str
    b"czqv_n\nf\n",           # same attribute name from another module
    b"c__builtin__\neval\n",  # builtin global
    b"}\x8c\x01k",           # TWO values: empty dict + key (operands for SETITEM)
    b"czqv_m\nC\n)",          # TWO values: class + empty tuple (operands for NEWOBJ_EX / REDUCE)
    b"\x8f(",                 # set + MARK (operands for ADDITEMS)
    b"\x8c\x06zqv_m2\x8c\x01g",  # TWO strings (operands for STACK_GLOBAL)
    b"N",                     # None (e.g. a BUILD state)
    b"\x88",                  # True
    b"(K\x01K\x02K\x01K\x03d",  # dict via DICT with a duplicate key: the VM keeps the later value
    b"}(K\x01K\x02K\x01K\x03u",  # dict via SETITEMS with a duplicate key
    b"}\x8c\x04fromK\x01s",      # dict whose key is a Python keyword (kwargs of NEWOBJ_EX)
    b"}\x8c\x02\xc2\xb5K\x01s",   # dict whose key is an identifier that NFKC-normalises to another one (U+00B5)
    b"czqv_m\nC\nK\x01\x85",     # TWO values: class + 1-tuple (operands for NEWOBJ_EX with kwargs / NEWOBJ / REDUCE)
    b"(K\x01K\x02K\x03K\x04d",  # dict via DICT with two distinct pairs (key/value pairing and order)
    b"}(K\x01K\x02K\x03K\x04u",  # dict via SETITEMS with two distinct pairs
    b"(K\x01K\x02K\x03l",      # list via LIST with three distinct items
]
NB = len(BUILD)
MEMO = [b"", b"\x94", b"q\x05", b"q\x01"]      # none / MEMOIZE / BINPUT 5 / BINPUT 1 (collides with a later MEMOIZE at len(memo) == 1)
OPS = [b"0", b"2", b"a", b"e", b"s", b"u", b"\x90", b"t", b"\x85", b"\x86", b"R", b"b", b"o", b"\x81", b"1", b"l", b"d", b"\x91",
       b"h\x00", b"h\x05", b"\x94", b"N", b"Q", b"\x92", b")", b"\x93", b"izqv_m\nC\n", b"}", b"(", b"q\x05"]
OBS = [b".", b"0.", b"N.", b"h\x00.", b"h\x05.", b"0h\x00.", b"}b.", b"]\x94h\x00\x86.", b"Nb.", b"0h\x01.", b"0h\x01)R."]


def both(h, hm, hl, prog):
    """returns (verdict, detail). verdict in ok / hidden / vm-rejects / refused / EVENTS / VALUE / EXEC"""
    log_v, stub_v = make_world()
    vm = LoggingVM(SymStream(prog), log_v, stub_v)
    vm.start(stack=HList(hl, []), metastack=HList(hm, []))
    try:
        while True:
            vm.step()
    except pickle._Stop as st:
        v_res = st.value
    except rt.Hidden:
        return "hidden", None
    except Exception:
        return "vm-rejects", None
    try:
        p = Pickled.load(SymStream(prog))
        it = Interpreter(p)
        it.stack._stack = HList(h, [])
        F.Stack.__bool__ = lambda self: bool(self._stack)
        try:
            it.run()
        finally:
            del F.Stack.__bool__
        src = ast.unparse(it._module)
    except rt.Hidden:
        return "hidden", None
    except Exception:
        return "refused", None
    v_res, log_v = concretize(v_res), concretize(log_v)
    with native():      # everything from here on is concrete
        return _compare(src, log_v, v_res)


def _compare(src, log_v, v_res):
    st, env, log_d = exec_decompiled(src)
    if st != "ok":
        if isinstance(env, NameError):
            # a name the program uses was never imported or bound: the import the VM performs is missing
            return "EVENTS", "decompiled program uses an unbound name (%s) | %r" % (env, src)
        if isinstance(env, ImportError):
            # the program's import statement does not name the module the VM imports (relative import)
            return "EVENTS", "decompiled program's import is not the VM's (%s) | %r" % (env, src)
        return "EXEC", "%s: %s | %r" % (type(env).__name__, env, src)
    vm_events = [e for e in log_v if not (e[0] == "import" and e[1] == "builtins")]
    missing = missing_events([strip_ids(e) for e in vm_events], [strip_ids(e) for e in log_d])
    if missing:
        return "EVENTS", "missing %r | %r" % (dict(missing), src)
    if vcanon(v_res) != vcanon(env.get("result")):
        return "VALUE", "vm %r != decompiled %r | %r" % (vcanon(v_res), vcanon(env.get("result")), src)
    return "ok", None


def classify(b1, b2, op):
    """finding key of a program cell (class of recorded defects), or None"""
    if (b1, b2) in ((14, 8), (8, 14), (14, 9), (9, 14)):
        return "same-name-imports"
    if OPS[op] == b"\x91":
        return "frozenset"
    return None


CELL_KEYS = ("same-name-imports", "frozenset")


def _gate(oracle, cell_key):
    """cell-level gate: True = this cell is not this run's business. Findings keyed by the failing cell exclude / select
    whole cells; findings keyed by a failure signature are handled per program inside the cell."""
    k = "%s/%s" % (oracle, cell_key)
    if rt.MODE == "finding":
        if rt.FKEY.split("/", 1)[-1] in CELL_KEYS:
            return k != rt.FKEY
        return False
    return rt.skip(k)


def failure_key(verdict, detail):
    """signature of a failing program, for failures recorded as known findings by what goes wrong"""
    d = detail or ""
    import builtins as _b
    import re as _re
    m = _re.search(r"'(\w+)' object has no attribute '(__setstate__|update|extend)'", d)
    if verdict == "EXEC" and "AttributeError" in d and m and isinstance(getattr(_b, m.group(1), None) or (type(None) if m.group(1) == "NoneType" else None), type):
        return "noop-mutation-of-builtin"
    return None


SMALL_B = [0, 2, 3, 9, 12, 16, 17, 18, 19]      # int, list [1], empty dict, REDUCE result, MARK, dict+key, class+tuple, set+MARK, two strings


def make_lock(op, oracle):
    """finite product: builder kinds and base depth are solver-partitioned; memo choices and observers are
    enumerated natively inside each path (a path = one (base, b1, b2) cell of the partition)"""
    def lem(h: int, b1: int, b2: int) -> bool:
        """
        pre: 0 <= h <= 1 and 0 <= b1 < 32 and 0 <= b2 < 32
        post: _
        """
        if QUICK[0] and h != 0:
            return True
        if b1 >= NB or b2 >= NB:
            return True
        h, b1, b2 = pin(h, 0, 1), pin(b1, 0, NB - 1), pin(b2, 0, NB - 1)
        key = classify(b1, b2, op)
        if _gate(oracle, key):
            return True
        with native():
            return _cell(op, oracle, h, b1, b2) is None

    lem.__name__ = lem.__qualname__ = "lock_%s_%02d" % (oracle, op)
    return lem


def _cell(op, oracle, h, b1, b2):
    """every (memo1, memo2, observer) program of the cell; returns None or a description of the first failure"""
    m1s = (0, 3) if QUICK[0] else (0, 1, 2, 3)
    m2s = (0, 1, 2) if QUICK[0] else (0, 1, 2, 3)
    obs = (0, 1, 10) if QUICK[0] else range(len(OBS))
    bad = ("EVENTS",) if oracle == "C03" else ("VALUE", "EXEC")
    for m1 in m1s:
        for m2 in m2s:
            for ob in obs:
                prog = b"N" * h + BUILD[b1] + MEMO[m1] + BUILD[b2] + MEMO[m2] + OPS[op] + OBS[ob]
                verdict, detail = _plain(prog)
                rt.reach(verdict in ("ok", "EVENTS", "VALUE", "EXEC"))
                if verdict in bad:
                    fk = failure_key(verdict, detail)
                    if fk is not None and rt.skip("%s/%s" % (oracle, fk)):
                        continue
                    cell_key = "%s/%s" % (oracle, classify(b1, b2, op))
                    if fk is None and rt.MODE == "finding" and rt.FKEY != cell_key:
                        continue      # a finding run only reports its own class
                    return "%s on program %r: %s" % (verdict, prog, detail)
    return None


def make_hidden(op, oracle):
    """same obligation from a hidden base of symbolic depth (traced), smaller builder set"""
    def lem(h: int, hm: int, hl: int, b1: int, m1: int, b2: int, m2: int, ob: int) -> bool:
        """
        pre: h >= 0 and hm >= 0 and hl >= 0
        pre: 0 <= b1 < 9 and m1 == 0 and 0 <= b2 < 9 and 0 <= m2 < 4 and 0 <= ob < 3
        post: _
        """
        if QUICK[0] and ob == 2:
            return True
        b1, b2, m2, ob = SMALL_B[pin(b1, 0, 8)], SMALL_B[pin(b2, 0, 8)], pin(m2, 0, 3), pin(ob, 0, 2)
        key = classify(b1, b2, op)
        if _gate(oracle, key):
            return True
        prog = BUILD[b1] + BUILD[b2] + MEMO[m2] + OPS[op] + OBS[ob]
        verdict, detail = both(h, hm, hl, prog)
        if verdict == "hidden":
            rt.outside()
        rt.reach(verdict in ("ok", "EVENTS", "VALUE", "EXEC"))
        bad = ("EVENTS",) if oracle == "C03" else ("VALUE", "EXEC")
        if verdict in bad:
            fk = failure_key(verdict, detail)
            if fk is not None and rt.skip("%s/%s" % (oracle, fk)):
                return True
            if fk is None and rt.MODE == "finding" and rt.FKEY != "%s/%s" % (oracle, key):
                return True
            return False
        return True

    lem.__name__ = lem.__qualname__ = "hidden_%s_%02d" % (oracle, op)
    return lem


def make_replay(op, oracle):
    def replay(h, b1, b2):
        return _cell(op, oracle, h, b1, b2)
    return replay


def make_replay_hidden(op, oracle):
    def replay(h, hm, hl, b1, m1, b2, m2, ob):
        b1, b2 = SMALL_B[b1], SMALL_B[b2]
        bad = ("EVENTS",) if oracle == "C03" else ("VALUE", "EXEC")
        prog = b"N" * min(int(h), 8) + BUILD[b1] + BUILD[b2] + MEMO[m2] + OPS[op] + OBS[ob]
        verdict, detail = _plain(prog)
        if verdict in bad:
            return "%s on program %r: %s" % (verdict, prog, detail)
        v2, d2 = both(h, hm, hl, BUILD[b1] + BUILD[b2] + MEMO[m2] + OPS[op] + OBS[ob])
        if v2 in bad:
            return "%s (hidden-base run) %s" % (v2, d2)
        return None
    return replay


def _plain(prog):
    import io
    log_v, stub_v = make_world()
    vm = LoggingVM(io.BytesIO(prog), log_v, stub_v)
    try:
        v_res = vm.load()
    except Exception:
        return "vm-rejects", None
    try:
        src = ast.unparse(Pickled.load(prog).ast)
    except Exception:
        return "refused", None
    return _compare(src, log_v, v_res)


from vf.vocab import vocabulary
V_MODS = vocabulary()[0]


def imports_vocab(mi: int) -> bool:
    """
    pre: 0 <= mi < 200
    post: _
    """
    # every module name of the harvested vocabulary (incl. the modules compiled into the interpreter) through every
    # global-resolving opcode, resolved only / called / called and discarded
    if mi >= len(V_MODS):
        return True
    mi = pin(mi, 0, len(V_MODS) - 1)
    with native():
        m = V_MODS[mi].encode()
        progs = [b"c" + m + b"\nf\n.", b"c" + m + b"\nf\n)R.", b"c" + m + b"\nf\n)R0N.",
                 b"\x8c" + bytes([len(m)]) + m + b"\x8c\x01f\x93.", b"\x8c" + bytes([len(m)]) + m + b"\x8c\x01f\x93)R0N.",
                 b"(i" + m + b"\nf\n.", b"(K\x01i" + m + b"\nf\n0N.", b"(c" + m + b"\nf\nK\x01o0N.", b"c" + m + b"\nf\n)\x810N."]
        bad = ("EVENTS",) if ORACLE_T[0] == "C03" else ("VALUE", "EXEC", "EVENTS")
        for prog in progs:
            verdict, detail = _plain(prog)
            rt.reach(verdict in ("ok", "EVENTS", "VALUE", "EXEC"))
            if verdict in bad:
                LAST[0] = "%s on program %r: %s" % (verdict, prog, detail)
                return False
        return True


LAST = [None]
ORACLE_T = ["C03"]


def refusal(i: int) -> bool:
    """
    pre: 0 <= i < 16
    post: _
    """
    # operations fickling cannot model must be refused (at parse, run or unparse), never decompiled with the operation left out
    progs = [b"Pzq\n.", b"\x82\x01.", b"\x83\x01\x00.", b"\x84\x01\x00\x00\x00.", b"\x96\x00\x00\x00\x00\x00\x00\x00\x00.", b"F1.5\n.",
             b"\x97.", b"N\x98."]
    if i >= len(progs):
        return True
    i = pin(i, 0, len(progs) - 1)
    with native():
        rt.reach()
        try:
            ast.unparse(Pickled.load(progs[i]).ast)
        except Exception:
            return True
        return False


QUICK = [True]
ORACLE = "C03"


def lemmas(tier, oracle=None):
    oracle = oracle or ORACLE
    q = tier == "quick"
    QUICK[0] = q
    ORACLE_T[0] = oracle
    L = [Lemma("imports_vocab", imports_vocab, timeout=300 if q else 900, dry=[{"mi": 0}, {"mi": 5}],
               doc={"F": ["solver-partitioned: module name from the %d-name vocabulary harvested from /repo (tables, literals, sys.builtin_module_names, fresh names)" % len(V_MODS),
                          "enumerated per cell: 9 programs (GLOBAL / STACK_GLOBAL / INST / OBJ / NEWOBJ, resolved only, called, called and discarded)"], "bound": "one global per program"})]
    for op in range(len(OPS)):
        L.append(Lemma("lock_%s_%02d" % (oracle, op), make_lock(op, oracle), timeout=400 if q else 3000, replay=make_replay(op, oracle),
                       dry=[{"h": 0, "b1": 10, "b2": 0}, {"h": 0, "b1": 3, "b2": 0}],
                       doc={"F": ["solver-partitioned: base depth 0/1 x builder kinds (%d x %d)" % (NB, NB), "enumerated inside each cell: memo choice per slot (none / MEMOIZE / BINPUT 5 / BINPUT 1) x observer (%d)" % len(OBS), "opcode under test %r" % OPS[op]],
                            "oracle": "event sub-multiset" if oracle == "C03" else "canonical value equality + decompiled source executes",
                            "bound": "two builder slots, one opcode under test" + ("; quick: no memo on slot 1, 4 observers, empty base" if q else "")}))
        L.append(Lemma("hidden_%s_%02d" % (oracle, op), make_hidden(op, oracle), timeout=300 if q else 1800, replay=make_replay_hidden(op, oracle),
                       dry=[{"h": 0, "hm": 0, "hl": 0, "b1": 4, "m1": 0, "b2": 0, "m2": 0, "ob": 1}],
                       doc={"S": ["h, hm, hl: depth of the hidden base on fickling's stack / the VM's metastack / the VM's bottom segment (unbounded)"],
                            "F": ["builder slots (9 kinds, twice; memo on the second)", "opcode under test %r" % OPS[op], "observer (3)"],
                            "oracle": "event sub-multiset" if oracle == "C03" else "canonical value equality + decompiled source executes",
                            "bound": "two builder slots from 9 kinds, one opcode under test"}))
    if oracle == "C03":
        L.append(Lemma("refusal", refusal, timeout=60, dry=[{"i": 0}], doc={"F": ["8 programs using PERSID, EXT1/2/4, BYTEARRAY8, FLOAT, NEXT_BUFFER, READONLY_BUFFER"], "bound": "listed"}))
    return L
