"""C14 - edits through the sequence interface keep every derived view coherent.

Inductive lemma "the cache is cold or coherent": from a cold or warm Pickled, apply ONE mutator
(every MutableSequence method, every injection helper) at a solver-chosen index with a solver-chosen
payload, then compare every derived view with a freshly constructed Pickled over the same opcodes."""
import ast
from typing import List

import fickling.fickle as F
from fickling.analysis import check_safety
from fickling.fickle import Pickled

from vf import rt
from vf.engine import Lemma
from vf.refvm import adump
from vf.symlib import native, pin

import re
_ADDR = re.compile(r"0x[0-9a-f]+")
PROPERTY = "C14"
RULE = ("Base program, cache state, mutator, payload opcode and index/slice bounds are solver-partitioned; every "
        "mutator x index pair is one path. Views compared: AST dump, imports/calls summaries, has_*, unsafe/non-standard imports, severity, dumps().")
ASSUMPTIONS = [
    "finite-state property: all variables are pinned (solver-certified exhaustive partition), the region under test runs natively after pinning",
    "coherent = equal to the views of Pickled(list(p)); a view that raises must raise the same exception type on both",
    "one mutation from an arbitrary cold-or-coherent state; histories of any length follow by induction because the post-state is again cold or coherent (asserted)",
]

BASES = [b"K\x01.", b"]q\x00(K\x01K\x02e.", b"cos\nsystem\n(S'id'\ntR.", b"\x80\x02}q\x00X\x01\x00\x00\x00aK\x01s.",
         b"\x80\x04\x95\x02\x00\x00\x00\x00\x00\x00\x00N.", b"(czqv\nC\nK\x01o."]


def payloads():
    return [F.NoneOpcode(), F.Global.create("os", "system"), F.Pop(), F.BinInt1(5), F.Mark(), F.Stop(), F.EmptyList()]


def views(p):
    out = {}
    for name, fn in [
        ("ast", lambda: adump(p.ast)),
        ("src", lambda: _ADDR.sub("0x", ast.unparse(p.ast))),      # FROZENSET nodes print an object address (recorded C05 finding)
        ("imports", lambda: [adump(n) for n in p.properties.imports]),
        ("calls", lambda: [adump(n) for n in p.properties.calls]),
        ("safe_imports", lambda: sorted(p.properties.likely_safe_imports)),
        ("has_import", lambda: p.has_import), ("has_call", lambda: p.has_call),
        ("has_nss_call", lambda: p.has_non_setstate_call),
        ("unsafe_imports", lambda: [adump(n) for n in p.unsafe_imports()]),
        ("nonstd_imports", lambda: [adump(n) for n in p.non_standard_imports()]),
        ("severity", lambda: check_safety(p).severity.name),
        ("dumps", lambda: p.dumps()),
        ("len", lambda: (len(p), p.nb_opcodes)),
    ]:
        try:
            out[name] = ("ok", fn())
        except Exception as e:
            out[name] = ("raise", type(e).__name__)
    return out


MUTATORS = ["insert", "setitem", "setslice", "delitem", "delslice", "append", "extend", "pop", "remove", "reverse", "iadd",
            "clear", "insert_python", "insert_python_last", "insert_python_exec_replace", "append_python", "append_python_pop",
            "insert_magic_int", "insert_python_obj", "insert_fn_call", "insert_fn_call_compiled",
            "insert_python_fails_midway", "append_python_fails_midway", "insert_python_obj_fails_midway"]


def apply(p, m, i, j, pay):
    ops = payloads()
    op = ops[pay]
    if m == "insert":
        p.insert(i, op)
    elif m == "setitem":
        p[i] = op
    elif m == "setslice":
        p[i:j] = [op, F.NoneOpcode()]
    elif m == "delitem":
        del p[i]
    elif m == "delslice":
        del p[i:j]
    elif m == "append":
        p.append(op)
    elif m == "extend":
        p.extend([op, F.Pop()])
    elif m == "pop":
        p.pop(i)
    elif m == "remove":
        p.remove(p[i])
    elif m == "reverse":
        p.reverse()
    elif m == "iadd":
        p += [op]
    elif m == "clear":
        p.clear()
    elif m == "insert_python":
        p.insert_python("1+%d" % pay)
    elif m == "insert_python_last":
        p.insert_python("x", run_first=False)
    elif m == "insert_python_exec_replace":
        p.insert_python_exec("y", run_first=bool(pay % 2), use_output_as_unpickle_result=True)
    elif m == "append_python":
        p.append_python("z", module="os", attr="system")
    elif m == "append_python_pop":
        p.append_python("z", pop_result=True)
    elif m == "insert_magic_int":
        p.insert_magic_int(1234 + pay, i)
    elif m == "insert_python_obj":
        p.insert_python_obj(i if i >= 0 else 0, [pay, {"k": "v"}])
    elif m == "insert_fn_call":
        p.insert_function_call_on_unpickled_object("def zq(obj):\n    return obj")
    elif m == "insert_fn_call_compiled":
        p.insert_function_call_on_unpickled_object("def zq(obj):\n    return obj", compile_code=True)
    elif m == "insert_python_fails_midway":
        p.insert_python("ok", {1, 2})          # the set argument is refused after GLOBAL, MARK and the first constant went in
    elif m == "append_python_fails_midway":
        p.append_python("ok", [1])             # append_python takes constants only: raises after GLOBAL, MARK, 'ok'
    elif m == "insert_python_obj_fails_midway":
        p.insert_python_obj(0, [1, 2, object()])
    else:
        raise AssertionError(m)


USES_I = ("insert", "setitem", "setslice", "delitem", "delslice", "pop", "remove", "insert_magic_int", "insert_python_obj")
USES_J = ("setslice", "delslice")
USES_PAY = ("insert", "setitem", "append", "extend", "iadd", "insert_python", "insert_python_exec_replace",
            "insert_magic_int", "insert_python_obj")


def make_lemma(name):
    uses_i, uses_j, uses_pay = name in USES_I, name in USES_J, name in USES_PAY

    def lem(base: int, warm: int, i: int, j: int, pay: int) -> bool:
        """
        pre: 0 <= base < 6 and 0 <= warm < 3 and -14 <= i <= 14 and -14 <= j <= 14 and 0 <= pay < 7
        post: _
        """
        if (not uses_i and i != 0) or (not uses_j and j != 0) or (not uses_pay and pay != 0):
            return True
        base, warm = pin(base, 0, 5), pin(warm, 0, 2)
        n = NOPS[base]
        if uses_i:
            if i < -n - 2 or i > n + 2:
                return True
            i = pin(i, -n - 2, n + 2)
        if uses_j:
            if j < -n - 2 or j > n + 2:
                return True
            j = pin(j, -n - 2, n + 2)
        if uses_pay:
            pay = pin(pay, 0, 6)
        with native():
            return _coherent(base, warm, name, i if uses_i else 0, j if uses_j else 0, pay if uses_pay else 0)

    lem.__name__ = lem.__qualname__ = "coherent_" + name
    return lem


NOPS = [len(Pickled.load(b)) for b in BASES]


def _coherent(base, warm, name, i, j, pay):
    p = Pickled.load(BASES[base])
    if warm >= 1:
        _ = p.ast
        _ = p.properties
    if warm == 2:
        check_safety(p)
        _ = p.has_import, p.has_call
    try:
        apply(p, name, i, j, pay)
    except Exception:
        # the edit itself was refused (index out of range, STOP missing, ...): the object must still be coherent
        pass
    rt.reach(warm > 0)
    got = views(p)
    want = views(Pickled(list(p)))
    if got != want:
        return False
    # serialised form is the concatenation of the current opcodes' encodings
    try:
        cat = b"".join(o.data for o in p)
    except Exception:
        return got["dumps"][0] == "raise"
    if got["dumps"] != ("ok", cat):
        return False
    # second mutation from the (now possibly warm) post-state: the invariant is inductive
    try:
        p.insert(0, F.Global.create("zqv", "f"))
    except Exception:
        pass
    return views(p) == views(Pickled(list(p)))


# ---------------------------------------------------------------------------------------------
# every opcode class the library defines, as the inserted / replacing opcode (a special case keyed on the opcode's
# class or on how its argument compares arrives in the domain by itself)
X_BASES = [b"\x80\x04]\x94(\x8c\x02os\x94\x8c\x06system\x94\x8c\x07echo hi\x94e.",       # ['os','system','echo hi']: strings on the stack
           b"(I1\nK\x00G\x00\x00\x00\x00\x00\x00\x00\x00K\x01t."]                                     # ints 1, 0, float 0.0, int 1
X_NOPS = [len(Pickled.load(b)) for b in X_BASES]


def default_instance(cls):
    """an opcode of class `cls` with a representative argument"""
    info = cls.info
    if info.arg is None:
        return cls()
    n = info.arg.name
    if cls.name in ("GLOBAL", "INST"):
        return cls("os system")
    if cls.name == "GET":
        return cls.create(0)
    if n in ("uint1", "uint2", "int4", "uint4", "uint8", "decimalnl_short", "decimalnl_long", "long1", "long4"):
        return cls(1)
    if n == "float8":
        return cls(1.5)
    if "bytes" in n:
        return cls(b"b")
    return cls("s")


ALL_CLASSES = sorted(F.OPCODES_BY_NAME)


def equal_twin(op):
    """same class, an argument that compares equal but is a different constant (True vs 1, -0.0 vs 0.0, 1.0 vs 1)"""
    a = op.arg
    if isinstance(a, bool):
        t = int(a)
    elif isinstance(a, int) and a in (0, 1):
        t = bool(a)
    elif isinstance(a, int):
        t = float(a)
    elif isinstance(a, float) and a == 0.0:
        t = -a if str(a)[0] != "-" else 0.0
    else:
        return None
    return type(op)(t)


def make_allops(kind, base):
    def lem(warm: int, i: int, ci: int) -> bool:
        """
        pre: 0 <= warm < 2 and 0 <= i < 14 and 0 <= ci < 64
        post: _
        """
        warm = pin(warm, 0, 1)
        n = X_NOPS[base]
        if i > n:
            return True
        i = pin(i, 0, n)
        if kind == 2:
            if ci != 0:
                return True
        elif ci >= len(ALL_CLASSES):
            return True
        else:
            ci = pin(ci, 0, len(ALL_CLASSES) - 1)
        with native():
            p = Pickled.load(X_BASES[base])
            if warm:
                views(p)
            try:
                if kind == 0:
                    p.insert(i, default_instance(F.OPCODES_BY_NAME[ALL_CLASSES[ci]]))
                elif kind == 1:
                    p[i] = default_instance(F.OPCODES_BY_NAME[ALL_CLASSES[ci]])
                else:
                    t = equal_twin(p[i])
                    if t is None:
                        return True
                    p[i] = t
            except Exception:
                pass
            rt.reach(warm > 0)
            return views(p) == views(Pickled(list(p)))

    lem.__name__ = lem.__qualname__ = "allops_%s_b%d" % (["insert", "replace", "twin"][kind], base)
    return lem


def make_pairs(m1):
    """two edits in a row with a read of every view in between (the 'read, edit, read again' pattern, twice)"""
    name1 = MUTATORS[m1]

    def lem(base: int, m2: int) -> bool:
        """
        pre: 0 <= base < 6 and 0 <= m2 < 24
        post: _
        """
        base, m2 = pin(base, 0, 5), pin(m2, 0, len(MUTATORS) - 1)
        with native():
            name2 = MUTATORS[m2]
            n = NOPS[base]
            idx = sorted({0, 1, n // 2, n - 1, -1})
            for i1 in (idx if name1 in USES_I else [0]):
                for i2 in (idx if name2 in USES_I else [0]):
                    for pay in ((1, 2) if (name1 in USES_PAY or name2 in USES_PAY) else (0,)):
                        p = Pickled.load(BASES[base])
                        views(p)
                        try:
                            apply(p, name1, i1, i1 + 2, pay)
                        except Exception:
                            pass
                        first = views(p)
                        if first != views(Pickled(list(p))):
                            return False
                        try:
                            apply(p, name2, i2, i2 + 2, (pay + 3) % 7)
                        except Exception:
                            pass
                        rt.reach()
                        if views(p) != views(Pickled(list(p))):
                            return False
            return True

    lem.__name__ = lem.__qualname__ = "pairs_" + name1
    return lem


def lemmas(tier):
    q = tier == "quick"
    L = []
    for m1 in range(len(MUTATORS)):
        fn = make_pairs(m1)
        L.append(Lemma(fn.__name__, fn, timeout=300 if q else 1500, dry=[{"base": 1, "m2": 3}, {"base": 4, "m2": 12}],
                       doc={"F": ["solver-partitioned: base (6) x second mutator (21); first mutator = " + MUTATORS[m1],
                                  "enumerated per cell: indices {0, 1, n/2, n-1, -1} for each edit, 2 payloads; every view is read before, between and after the edits"],
                            "bound": "two edits"}))
    for kind in range(3):
        for base in range(2):
            fn = make_allops(kind, base)
            L.append(Lemma(fn.__name__, fn, timeout=300 if q else 1500, dry=[{"warm": 1, "i": 3, "ci": ALL_CLASSES.index("STACK_GLOBAL") if kind < 2 else 0}],
                           doc={"F": ["edit: %s" % ["insert", "replace", "replace by an equal-comparing twin (True~1, -0.0~0.0, 1.0~1)"][kind],
                                      "opcode class: all %d classes in OPCODES_BY_NAME with a representative argument" % len(ALL_CLASSES) if kind < 2 else "twin of the opcode at the index",
                                      "base %d of 2 (strings on the stack; ints and a float), every index, cold/warm" % base], "bound": "single edit"}))
    for name in MUTATORS:
        L.append(Lemma("coherent_" + name, make_lemma(name), timeout=200 if q else 900,
                       dry=[{"base": 1, "warm": 1, "i": 2 if name in USES_I else 0, "j": 0, "pay": 1 if name in USES_PAY else 0},
                            {"base": 2, "warm": 2, "i": -1 if name in USES_I else 0, "j": 3 if name in USES_J else 0, "pay": 0}],
                       doc={"F": ["base program (6)", "cache: cold / ast+properties read / all views read", "mutator: " + name,
                                  "index i" + (" in -n-2..n+2" if name in USES_I else " unused"), "slice end j" + (" in -n-2..n+2" if name in USES_J else " unused"),
                                  "payload opcode" + (" (7)" if name in USES_PAY else " unused")],
                            "bound": "single mutation + one follow-up insert from each post-state; 6 base programs"}))
    return L
