"""C15 - injected constants and constructed opcodes mean what was asked, or are refused.

Real code: ConstantOpcode.new (priority search over validate()), every validate/encode_body/encode,
DynamicLength.encode_length, ConstantInt.encode_body, raw_unicode_escape, Pickled._encode_python_obj,
insert_python / append_python / insert_function_call_on_unpickled_object, cli.main --create.
Read-back: CPython's pure-Python unpickler (values) and pickletools.genops (opcode, argument)."""
import io
import os
import pickle
import pickletools
from typing import List

import fickling.cli as cli
import fickling.fickle as F
from fickling.fickle import ConstantOpcode, Pickled

from vf import rt
from vf.engine import Lemma
from vf.refvm import LoggingVM, canon, make_world, run_vm
from vf.symlib import Collector, SymStream, native, opaque_repr, pin, pure_struct

PROPERTY = "C15"
RULE = ("Constant values are solver variables where the encoder keeps them as terms (all ints, bytes <=3, str <=2, lengths "
        "around the 1-byte/4-byte switch); text classes, floats and container shapes are pinned samples.")
ASSUMPTIONS = [
    "struct.pack as seen by fickling.fickle / struct.unpack as seen by pickle & pickletools are the pure-Python stand-ins (validated at start-up)",
    "repr() of symbolic int/bytes inside ValueError messages returns an opaque token (diagnostic text only)",
    "INT/LONG decimal rendering of an arbitrary int is cut: the lemma asserts the opcode keeps x and the body equals str(x)+'\\n' on pinned samples (decimal render/parse round-trip of CPython trusted)",
    "refusal = any exception while building or encoding; silent change of value or kind = violation",
    "floats are samples (CrossHair realises floats); str beyond length 2 are samples",
]
REFUSAL = (Exception,)


def vm_value(data):
    """value the reference VM builds from a single-constant program"""
    log, stub = make_world()
    vm = LoggingVM(SymStream(data + b"."), log, stub)
    return vm.load()


def same(a, b):
    return type(a) is type(b) and a == b


# ------------------------------------------------------------------------------------ ints
def const_int(x: int) -> bool:
    """
    post: _
    """
    with pure_struct(), opaque_repr():
        try:
            op = ConstantOpcode.new(x)
        except REFUSAL:
            return True
        rt.reach()
        if op.name in ("INT", "LONG"):
            # decimal cut (see ASSUMPTIONS); rendering is checked by const_int_text on samples
            return type(op.arg) is int and op.arg == x
        try:
            data = op.encode()
        except REFUSAL:
            return True
        ops = list(pickletools.genops(SymStream(data + b".")))
        if ops[0][0].name != op.name:
            return False
        return same(vm_value(data), x)


INT_SAMPLES = [0, 1, -1, 255, 256, 257, 65535, 65536, 65537, 2 ** 31 - 1, 2 ** 31, 2 ** 31 + 1, -2 ** 31, -2 ** 31 - 1,
               2 ** 63 - 1, 2 ** 63, 2 ** 63 + 1, -2 ** 63, 10 ** 40, -10 ** 40, 7, 10, 99, 100, 12345678901234567890]


def const_int_text(i: int) -> bool:
    """
    pre: 0 <= i < 25
    post: _
    """
    i = pin(i, 0, len(INT_SAMPLES) - 1)
    with native():
        x = INT_SAMPLES[i]
        try:
            data = ConstantOpcode.new(x).encode()
        except REFUSAL:
            return True
        rt.reach()
        return same(vm_value(data), x)


# ------------------------------------------------------------------------------------ bytes
def const_bytes(b: bytes) -> bool:
    """
    pre: len(b) <= 3
    post: _
    """
    with pure_struct(), opaque_repr():
        try:
            data = ConstantOpcode.new(b).encode()
        except REFUSAL:
            return True
        rt.reach()
        return same(vm_value(data), b)


def const_bytes_len(n: int, fill: int) -> bool:
    """
    pre: 250 <= n <= 260 and 0 <= fill < 3
    post: _
    """
    # the SHORT_BINBYTES -> BINBYTES switch at 255/256 with the length symbolic
    b = [b"\x00", b"A", b"\xff"][pin(fill, 0, 2)] * n
    with pure_struct(), opaque_repr():
        try:
            data = ConstantOpcode.new(b).encode()
        except REFUSAL:
            return True
        rt.reach()
        return same(vm_value(data), b)


# ------------------------------------------------------------------------------------ str
STR_MAXLEN = [1]


def const_str(s: str) -> bool:
    """
    pre: len(s) <= 2
    post: _
    """
    if len(s) > STR_MAXLEN[0]:
        return True
    with pure_struct():
        try:
            data = ConstantOpcode.new(s).encode()
        except REFUSAL:
            return True
        rt.reach()
        try:
            v = vm_value(data)
        except Exception:
            return False      # built without complaint but the VM cannot read it
        return same(v, s)


STR_SAMPLES = ["", "0", "123", "-5", "1.5", "True", "None", "abc", "it's", 'say "hi"', "back\\slash", "new\nline", "cr\rlf",
               "tab\t", "\x00", "\x7f", "\x80", "\xe9", "caf\xe9", "€", "中文", "\U0001f600", "\ud800",
               "a" * 255, "a" * 256, "\xe9" * 128, "'", '"', "\\", "\\n", "\\u0041", "__import__('os').system('id')"]


def const_str_samples(i: int) -> bool:
    """
    pre: 0 <= i < 32
    post: _
    """
    i = pin(i, 0, len(STR_SAMPLES) - 1)
    if rt.skip("const_str_samples/" + ascii(STR_SAMPLES[i][:6])):
        return True
    with native():
        s = STR_SAMPLES[i]
        try:
            data = ConstantOpcode.new(s).encode()
        except REFUSAL:
            return True
        rt.reach()
        try:
            v = vm_value(data)
        except Exception:
            return False
        return same(v, s)


BYTES_SAMPLES = [b"", b"0", b"12", b"-3", b"1.5", b"abc", b"\x00", b"\xff" * 3, b"'", b"\n", b"\\", b"a" * 255, b"a" * 256, b"a" * 65536]
FLOAT_SAMPLES = [0.0, -0.0, 1.0, 1.5, -2.5, float("inf"), float("-inf"), float("nan"), 1e308, 5e-324, 1e22, 3.0]
OTHER_SAMPLES = [True, False, None, 1 + 2j, (1, 2), {1, 2}, bytearray(b"x")]


def const_misc(kind: int, i: int) -> bool:
    """
    pre: 0 <= kind < 3 and 0 <= i < 16
    post: _
    """
    kind, i = pin(kind, 0, 2), pin(i, 0, 15)
    table = [BYTES_SAMPLES, FLOAT_SAMPLES, OTHER_SAMPLES][kind]
    if i >= len(table):
        return True
    with native():
        x = table[i]
        try:
            data = ConstantOpcode.new(x).encode()
        except REFUSAL:
            rt.reach(kind != 0)
            return True
        rt.reach()
        try:
            v = vm_value(data)
        except Exception:
            return False
        if isinstance(x, float) and x != x:
            return isinstance(v, float) and v != v
        if isinstance(x, float):
            return type(v) is float and repr(v) == repr(x)
        return same(v, x)


SEQ_POOL = [0, 1, 2, True, False, 0.0, -0.0, 1.0, 2.0, "1", b"1", "0", 255, 255.0, -1, -1.0]


def _outcome(x):
    """('refused',) or ('value', canonical form of what the VM reads back)"""
    try:
        data = ConstantOpcode.new(x).encode()
    except REFUSAL:
        return ("refused",)
    try:
        v = vm_value(data)
    except Exception:
        return ("unreadable",)
    return ("value", type(v).__name__, repr(v))


def const_sequence(i: int, j: int) -> bool:
    """
    pre: 0 <= i < 16 and 0 <= j < 16
    post: _
    """
    # what a constant means must not depend on which constants were encoded before it (values that compare equal
    # across kinds: 1 == True == 1.0, 0 == False == -0.0 == 0.0): encode pool[i], then pool[j], and demand for the
    # second the same outcome a fresh interpreter gives (REFERENCE, computed in a child process at start-up)
    i, j = pin(i, 0, len(SEQ_POOL) - 1), pin(j, 0, len(SEQ_POOL) - 1)
    with native():
        _reference()
        _outcome(SEQ_POOL[i])
        got = _outcome(SEQ_POOL[j])
        rt.reach()
        x = SEQ_POOL[j]
        if got[0] == "value" and not (got[1] == type(x).__name__ and got[2] == repr(x)):
            return False                   # silently a different value or kind
        return got == tuple(REFERENCE[j])


REFERENCE = []


def _reference():
    """outcome of every pool element alone, each in a fresh interpreter"""
    import json
    import subprocess
    import sys as _sys
    if REFERENCE:
        return
    code = ("import sys, json; sys.path.insert(0, %r); import harness.c15 as H\n"
            "k = int(sys.argv[1]); print(json.dumps(H._outcome(H.SEQ_POOL[k])))") % os.path.dirname(os.path.dirname(os.path.abspath(__file__)))
    procs = [subprocess.Popen([_sys.executable, "-c", code, str(k)], stdout=subprocess.PIPE, text=True) for k in range(len(SEQ_POOL))]
    for p in procs:
        out = p.communicate(timeout=120)[0]
        REFERENCE.append(json.loads(out.strip().splitlines()[-1]))


# ------------------------------------------------------------------------------------ containers & helpers
def _shapes(a, b, s, t):
    """container shapes (depth <= 2) over int leaves a, b, a str leaf s and a bytes leaf t"""
    return [[], [a], [a, b], [a, [b]], [[a], [b, s]], {}, {1: b}, {s: a}, {s: [a, b]}, {2: {s: b}}, [{3: b}, {}],
            [s, t, a], {s: t}, [[], [[]]], {4: [], s: {}}, [a, a], {5: b, 6: a}]


A_SAMPLES = [0, 255, 256, 65536, -1]


def make_container_lemma(helper, sym_b):
    def lem(shape: int, a: int, b: int) -> bool:
        """
        pre: 0 <= shape < 17
        post: _
        """
        # int leaves symbolic (every int); the argument travels through the real injection helper and
        # is observed as the argument of an inert sink in the reference VM
        shape = pin(shape, 0, 16)
        if not sym_b:
            if b != 300 or a < 0 or a >= len(A_SAMPLES):
                return True
            b = 300
            a = A_SAMPLES[pin(a, 0, len(A_SAMPLES) - 1)]
            with native():
                return body(shape, a, b)
        return body(shape, a, b)

    def body(shape, a, b):
        arg = _shapes(a, b, "k", b"v")[shape]
        with pure_struct(), opaque_repr():
            p = Pickled([F.NoneOpcode(), F.Stop()])
            try:
                if helper == 0:
                    p.insert_python(arg, module="zqv_sink", attr="f")
                elif helper == 1:
                    p.insert_python(arg, module="zqv_sink", attr="f", run_first=False, use_output_as_unpickle_result=True)
                else:
                    p.append_python(arg, module="zqv_sink", attr="f")
                if any(o.name in ("INT", "LONG") for o in p):
                    # text-rendered ints: cut (value kept on the opcode), rendering checked on samples
                    rt.reach()
                    return _int_leaves_kept(p, a, b)
                data = p.dumps()
            except REFUSAL:
                return True
            rt.reach()
            st, v, log, vm = run_vm(None, SymStream(data))
            if st != "ok":
                return False
            inv = [e for e in log if e[0] == "invoke" and e[1] == ("zqv_sink", "f")]
            return len(inv) == 1 and inv[0][2] == canon((arg,))

    lem.__name__ = lem.__qualname__ = "container_args_h%d" % helper
    return lem


def _int_leaves_kept(p, a, b):
    vals = [o.arg for o in p if isinstance(o, F.ConstantInt) or o.name in ("INT", "LONG")]
    return all(type(v) is int for v in vals) and all((v == a) or (v == b) or (type(v) is int and 1 <= v <= 6) for v in vals)


def helper_constant_args(i: int, j: int) -> bool:
    """
    pre: 0 <= i < 40 and 0 <= j < 3
    post: _
    """
    # insert_function_call_on_unpickled_object(constant_args=[x]) and append_python(x): x from the sample pools
    pool = INT_SAMPLES[:12] + STR_SAMPLES[:16] + BYTES_SAMPLES[:6] + FLOAT_SAMPLES[:4] + [True, False]
    if i >= len(pool):
        return True
    i, j = pin(i, 0, len(pool) - 1), pin(j, 0, 2)
    with native():
        x = pool[i]
        p = Pickled([F.NoneOpcode(), F.Stop()])
        try:
            if j == 0:
                p.append_python(x, module="zqv_sink", attr="f", pop_result=True)
                want_callee = ("zqv_sink", "f")
            elif j == 1:
                p.insert_python_exec(x)
                want_callee = ("builtins", "exec")
            else:
                p.insert_function_call_on_unpickled_object("def zqv_fn(obj, c):\n    return obj", constant_args=[x])
                want_callee = None
            data = p.dumps()
        except REFUSAL:
            return True
        rt.reach()
        st, v, log, vm = run_vm(data)
        if st != "ok":
            return False
        if want_callee is not None:
            inv = [e for e in log if e[0] == "invoke" and e[1] == want_callee]
            return len(inv) == 1 and inv[0][2] == canon((x,))
        # the injected function is called through the instance returned by eval-stub: its call is logged as invoke-instance
        inv = [e for e in log if e[0] == "invoke-instance"]
        return len(inv) == 1 and inv[0][2][0] == "tuple" and inv[0][2][1][1] == canon(x)


# ------------------------------------------------------------------------------------ B: every constructible opcode
def _equiv(op, garg):
    a = op.arg
    if a == garg and type(a) is type(garg):
        return True
    if isinstance(a, bytes) and isinstance(garg, str):
        try:
            return a.decode("utf-8", "surrogatepass") == garg
        except Exception:
            return False
    if isinstance(a, str) and isinstance(garg, bytes):
        return a.encode("utf-8", "surrogatepass") == garg
    if op.name == "GET":
        return op.memo_id == garg
    if op.name == "PROTO":
        return op.version == garg
    if a is None and garg is None:
        return True
    return False


def _valid_utf8(b):
    b.decode("utf-8")      # a bytes argument of a text opcode stands for UTF-8 text; anything else was not asked
    return b


CONSTRUCT = {
    # name -> list of constructors taking (x:int, b:bytes, s:str)
    "GLOBAL": [lambda x, b, s: F.Global.create("os", "system"), lambda x, b, s: F.Global.create("a.b", "c.d")],
    "INST": [lambda x, b, s: F.Inst.create("m", "C")],
    "GET": [lambda x, b, s: F.Get.create(x)],
    "PUT": [lambda x, b, s: F.Put(x)],
    "PROTO": [lambda x, b, s: F.Proto.create(x)],
    "UNICODE": [lambda x, b, s: F.Unicode(b)],
    "STRING": [lambda x, b, s: F.String(s)],
    "SHORT_BINSTRING": [lambda x, b, s: F.ShortBinString(s)],
    "BINSTRING": [lambda x, b, s: F.BinString(s)],
    "SHORT_BINUNICODE": [lambda x, b, s: F.ShortBinUnicode(s), lambda x, b, s: F.ShortBinUnicode(_valid_utf8(b))],
    "BINUNICODE": [lambda x, b, s: F.BinUnicode(s)],
    "BINUNICODE8": [lambda x, b, s: F.BinUnicode8(s)],
    "SHORT_BINBYTES": [lambda x, b, s: F.ShortBinBytes(b)],
    "BINBYTES": [lambda x, b, s: F.BinBytes(b)],
    "BINBYTES8": [lambda x, b, s: F.BinBytes8(b)],
    "BINFLOAT": [lambda x, b, s: F.BinFloat(1.5)],
}
INT_ARG = {"BININT1", "BININT2", "BININT", "LONG1", "LONG4", "INT", "LONG", "BINPUT", "LONG_BINPUT", "BINGET", "LONG_BINGET", "FRAME"}
B_SAMPLES = [b"", b"a", b"ab", b"\x7f", b"\x80", b"\xc3\xa9", b"\n", b"\\", b"\r", b"\x00", b"\\u0041", b"\x1f ",
             "a\U0001f600b".encode(), "\U0001f600\xe9\u20acz".encode(), b"\\\\users", b"x\\\\\\\\U1"]
S_SAMPLES = ["", "a", "ab", "'", "\xe9", "\n", "\\", "€", '"']
X_SAMPLES = [0, 1, 5, 127, 128, 255, 256, 65535, 65536, -1, 2 ** 31 - 1, 2 ** 31]
NAMES = sorted(F.OPCODES_BY_NAME)


def opcode_readback(n: int, v: int, x: int, bi: int, si: int) -> bool:
    """
    pre: 0 <= n < 64 and 0 <= v < 2 and 0 <= bi < 16 and 0 <= si < 9
    post: _
    """
    if n >= len(NAMES):
        return True
    n, v = pin(n, 0, len(NAMES) - 1), pin(v, 0, 1)
    name = NAMES[n]
    cls = F.OPCODES_BY_NAME[name]
    key = "opcode_readback/" + name
    if rt.skip(key):
        return True
    if name in ("INT", "LONG", "GET", "PUT"):
        return True      # decimal text of a symbolic int enumerates digits: see opcode_readback_xs
    if name in CONSTRUCT:
        if v >= len(CONSTRUCT[name]):
            return True
        make = CONSTRUCT[name][v]
        uses_x = name in ("GET", "PUT", "PROTO")
    elif name in INT_ARG:
        if v:
            return True
        make = lambda x_, b_, s_: cls(x_)   # noqa
        uses_x = True
    else:
        if v:
            return True
        make = lambda x_, b_, s_: cls()     # noqa
        uses_x = False
    uses_b = name in ("UNICODE", "SHORT_BINBYTES", "BINBYTES", "BINBYTES8") or (name == "SHORT_BINUNICODE" and v == 1)
    uses_s = name in ("STRING", "SHORT_BINSTRING", "BINSTRING", "BINUNICODE", "BINUNICODE8") or (name == "SHORT_BINUNICODE" and v == 0)
    if (not uses_b and bi != 0) or (not uses_s and si != 0):
        return True      # the sample index is irrelevant for this class: one representative
    bi, si = pin(bi, 0, len(B_SAMPLES) - 1), pin(si, 0, len(S_SAMPLES) - 1)
    if not uses_x:
        x = 0
    b, s = B_SAMPLES[bi], S_SAMPLES[si]
    with pure_struct(), opaque_repr():
        try:
            op = make(x, b, s)
            data = op.encode()
        except REFUSAL:
            return True
        rt.reach()
        try:
            ops = list(pickletools.genops(SymStream(data + b".")))
        except Exception:
            return False
        if name == "STOP":
            return len(ops) == 1 and ops[0][0].name == "STOP" and data == b"."
        if len(ops) != 2 or ops[0][0].name != name or ops[1][0].name != "STOP":
            return False
        return _equiv(op, ops[0][1])


def opcode_readback_xs(n: int, xi: int) -> bool:
    """
    pre: 0 <= n < 64 and 0 <= xi < 12
    post: _
    """
    # the text-rendered integer arguments on pinned samples (INT/LONG/GET/PUT) and all int-arg classes
    if n >= len(NAMES):
        return True
    n, xi = pin(n, 0, len(NAMES) - 1), pin(xi, 0, len(X_SAMPLES) - 1)
    name = NAMES[n]
    if name not in INT_ARG and name not in ("GET", "PUT", "PROTO"):
        return True
    key = "opcode_readback/" + name
    if rt.skip(key):
        return True
    with native():
        x = X_SAMPLES[xi]
        cls = F.OPCODES_BY_NAME[name]
        try:
            op = CONSTRUCT[name][0](x, b"", "") if name in CONSTRUCT else cls(x)
            data = op.encode()
        except REFUSAL:
            return True
        rt.reach()
        try:
            ops = list(pickletools.genops(data + b"."))
        except Exception:
            return False
        if len(ops) != 2 or ops[0][0].name != name:
            return False
        return _equiv(op, ops[0][1])


SECOND = [None, 0x41, 0xa9, 0x0a, 0x80]


def raw_escape(b0: int, b1: int) -> bool:
    """
    pre: 0 <= b0 < 256 and 0 <= b1 < 5
    post: _
    """
    # UNICODE's text escaping against CPython's own raw-unicode-escape decoder (what load_unicode uses):
    # decoding the escaped text must give back the text the argument bytes stand for
    b0, b1 = pin(b0, 0, 255), pin(b1, 0, len(SECOND) - 1)
    arg = bytes([b0]) + (b"" if SECOND[b1] is None else bytes([SECOND[b1]]))
    key = "raw_escape/" + ("ascii" if all(x < 128 for x in arg) else "non-ascii")
    if rt.skip(key):
        return True
    with native():
        try:
            want = arg.decode("utf-8")
        except UnicodeDecodeError:
            return True          # not text: nothing was asked
        try:
            enc = F.Unicode(arg).encode()
        except REFUSAL:
            return True
        rt.reach()
        try:
            got = vm_value(enc)
        except Exception:
            return False
        return got == want


# ------------------------------------------------------------------------------------ cli --create
CREATE_SAMPLES = ["1+1", "print('x')", "a\\nb", "caf\xe9", "€", "x\ny", "'q'", "\x7f", "\x80", "a\U0001f600b", "\U0001f600\xe9€z", "C:\\\\users\\u", "\\\\u0041\\U0001f600"]


def cli_create(i: int) -> bool:
    """
    pre: 0 <= i < 13
    post: _
    """
    i = pin(i, 0, len(CREATE_SAMPLES) - 1)
    text = CREATE_SAMPLES[i]
    key = "cli_create/" + ("ascii" if all(ord(c) < 128 for c in text) else "non-ascii")
    if rt.skip(key):
        return True
    with native():
        from harness.c10 import run_cli
        try:
            rc, out, _, _, _ = run_cli(["fickling", "--create", text], b"")
        except REFUSAL:
            return True
        rt.reach()
        st, v, log, vm = run_vm(out)
        if st != "ok":
            return False
        inv = [e for e in log if e[0] == "invoke"]
        return rc == 0 and len(inv) == 1 and inv[0][1] == ("builtins", "eval") and inv[0][2] == canon((text,))


def lemmas(tier):
    from vf.symlib import validate_pure_struct
    validate_pure_struct()
    q = tier == "quick"
    T = 150 if q else 900
    STR_MAXLEN[0] = 1 if q else 2
    A_SAMPLES[:] = [0, 255, 256, 65536, -1] if q else []
    return [
        Lemma("const_int", const_int, timeout=T, dry=[{"x": 5}, {"x": -1}, {"x": 70000}, {"x": 255}],
              doc={"S": ["x: every int (unbounded)"], "bound": "INT/LONG decimal rendering cut; binary encodings end-to-end"}),
        Lemma("const_int_text", const_int_text, timeout=T, dry=[{"i": 3}], doc={"F": ["%d boundary ints rendered and read back by the VM" % len(INT_SAMPLES)]}),
        Lemma("const_bytes", const_bytes, timeout=T, dry=[{"b": b"12"}, {"b": b""}], doc={"S": ["b: every bytes of length <= 3"], "bound": "len<=3"}),
        Lemma("const_bytes_len", const_bytes_len, timeout=T, dry=[{"n": 255, "fill": 1}, {"n": 256, "fill": 0}],
              doc={"S": ["n in 250..260 (length across the 1-byte/4-byte switch)", "fill byte in {00,41,ff} (pinned)"], "bound": "constant fill"}),
        Lemma("const_str", const_str, timeout=60 if q else 600, dry=[{"s": "0"}, {"s": "\xe9"}], doc={"S": ["s: every str of length <= %d (full Unicode)" % STR_MAXLEN[0]], "bound": "len<=%d" % STR_MAXLEN[0]}),
        Lemma("const_str_samples", const_str_samples, timeout=T, dry=[{"i": 2}], doc={"F": ["%d text-class samples" % len(STR_SAMPLES)]}),
        Lemma("const_sequence", const_sequence, timeout=T, dry=[{"i": 1, "j": 3}, {"i": 3, "j": 1}, {"i": 0, "j": 6}],
              doc={"F": ["ordered pairs from %d constants that compare equal across kinds (ints, bools, floats incl. -0.0, numeric-looking text/bytes): the second is encoded after the first in the same interpreter and must give the outcome a fresh interpreter gives" % len(SEQ_POOL)],
                   "bound": "pairs"}),
        Lemma("const_misc", const_misc, timeout=T, dry=[{"kind": 1, "i": 3}], doc={"F": ["bytes / float / bool,None,complex,tuple,set,bytearray samples"]}),
    ] + [
        Lemma("container_args_h%d" % h, make_container_lemma(h, not q), timeout=T, dry=[{"shape": 4, "a": 1, "b": 300}],
              doc={("F" if q else "S"): ["a: int leaf from samples 0,255,256,65536,-1 (pinned, native)" if q else "a, b: every int in container leaves"], "F": ["17 list/dict shapes depth<=2", "helper %d of insert_python first / last+replace / append_python" % h],
                   "bound": "listed shapes" + ("; second leaf fixed to 300" if q else "")})
        for h in (0, 1)      # append_python refuses containers (ConstantOpcode.new raises): covered by helper_constant_args
    ] + [
        Lemma("helper_constant_args", helper_constant_args, timeout=T, dry=[{"i": 14, "j": 2}],
              doc={"F": ["40 sample constants x {append_python, insert_python_exec, insert_function_call_on_unpickled_object(constant_args)}"]}),
        Lemma("opcode_readback", opcode_readback, timeout=T, dry=[{"n": 0, "v": 0, "x": 1, "bi": 1, "si": 1}],
              doc={"S": ["x: integer argument of BININT1/2, BININT, LONG1/4, BINPUT, ... (binary encodings)"],
                   "F": ["every class in OPCODES_BY_NAME x constructor variant", "bytes/str argument samples"], "bound": "text/bytes arguments are samples"}),
        Lemma("opcode_readback_xs", opcode_readback_xs, timeout=T, dry=[{"n": 10, "xi": 2}], doc={"F": ["int-argument classes x %d sample ints" % len(X_SAMPLES)]}),
        Lemma("raw_escape", raw_escape, timeout=T, dry=[{"b0": 65, "b1": 3}], doc={"F": ["b0: every first byte (256, pinned by the path tree) x 5 second-byte choices"], "bound": "1- and 2-byte arguments"}),
        Lemma("cli_create", cli_create, timeout=T, dry=[{"i": 0}], doc={"F": ["%d --create texts" % len(CREATE_SAMPLES)]}),
    ]
