"""C19 - safety analysis is total on every pickle that decompiles.

Real code: check_safety, every Analysis.analyze, AnalysisContext, AnalysisResults.severity/to_dict/
detailed_results/to_string, json serialisation of the report, loader.load's UnsafeFileError.info."""
import ast
import json
import pickle
from typing import List

import fickling.loader as loader
from fickling.analysis import AnalysisResult, Severity, check_safety
from fickling.exception import UnsafeFileError
from fickling.fickle import Pickled

from vf import rt
from vf.engine import Lemma
from vf.gadgets import CALL, gadget, program, with_fate
from vf.symlib import native, pin
from vf.vocab import is_builtin_family, vocabulary

PROPERTY = "C19"
RULE = "(module x attribute) over the vocabulary harvested from /repo on every run x resolve opcode x called-or-not x second import; all pinned."
ASSUMPTIONS = [
    "finite product space, every factor pinned (solver-certified exhaustive partition), analysis runs natively",
    "premise 'decompiles' = Pickled.load(...).ast and ast.unparse of it succeed; then check_safety must return, every finding must carry a Severity and a str message, the report must be JSON-serialisable, and the checked loader's UnsafeFileError.info must equal the report",
    "pickle.loads is a spy while the checked loader runs (nothing is executed)",
]

MODS, ATTRS = vocabulary()
C_MODS = [m for m in MODS if is_builtin_family(m) or m in ("os", "os.path", "sys", "torch.hub", "collections", "zqv_pkg", "zqv_pkg.sub", "numpy", "torch",
                                                           "torch.storage", "operator", "numpy.testing._private.utils", "__main__", "_codecs", "urllib2", "marshal", "dill")]


def total(data):
    try:
        p = Pickled.load(data)
        src = ast.unparse(p.ast)
    except Exception:
        return True                       # does not decompile: outside the premise
    rt.reach()
    res = check_safety(p)                 # any exception here is the violation (propagates as a failing path)
    for r in res.results:
        if not isinstance(r, AnalysisResult) or not isinstance(r.severity, Severity):
            return False
        if not isinstance(str(r), str) or (r.message is not None and not isinstance(r.message, str)):
            return False
    if not isinstance(res.severity, Severity):
        return False
    rep = res.to_dict()
    text = json.dumps(rep)
    if json.loads(text)["severity"] != res.severity.name:
        return False
    _ = res.to_string(), res.detailed_results(), bool(res)
    # the checked loader carries the same report, at every accepted-severity threshold at which it refuses
    saved = pickle.loads
    pickle.loads = lambda d, *a, **k: ("TOKEN", d)
    try:
        for thr in list(Severity):
            try:
                loader.load(data, max_acceptable_severity=thr)
                raised = None
            except UnsafeFileError as e:
                raised = e
            if res.severity <= thr:
                if raised is not None:
                    return False
            elif raised is None or raised.info != rep or not isinstance(str(raised), str):
                return False
    finally:
        pickle.loads = saved
    return True


def make_lemma(shard, nshards):
    mods = C_MODS_T[0][shard::nshards]

    def lem(mi: int, ni: int, rk: int, ck: int, second: int) -> bool:
        """
        pre: 0 <= mi < 64 and 0 <= ni < 80 and 0 <= rk < 3 and 0 <= ck < 3 and 0 <= second < 3
        post: _
        """
        if mi >= len(mods) or ni >= len(ATTRS_T[0]):
            return True
        mi, ni, rk, ck, second = pin(mi, 0, len(mods) - 1), pin(ni, 0, len(ATTRS_T[0]) - 1), pin(rk, 0, 2), pin(ck, 0, 2), pin(second, 0, 2)
        with native():
            module, name = mods[mi], ATTRS_T[0][ni]
            g = gadget([0, 1, 5][rk], 0, [0, 1, 4][ck], module, name)
            if g is None:
                return True
            if second == 1:
                g = gadget(0, 0, 0, "zqv_pkg", name) + b"0" + g           # same attribute name from another module first
            elif second == 2:
                g = gadget(0, 0, 1, "collections", "OrderedDict") + b"0" + g
            return total(program(0, 0, g, 0))

    lem.__name__ = lem.__qualname__ = "total_%d" % shard
    return lem


SPECIAL = [b"N.", b"K\x01.", b"\x80\x04\x80\x04N.", b"N\x80\x04.", b"\x80\x02\x80\x03N.", b"cm\nC\n)}\x92.", b"cm\nC\n)\x81}b.", b"NQ.",
           b"(cm\nC\nK\x01o0N.", b"]\x94h\x00h\x00\x86.", b"(K\x01K\x02d.", b"\x8f(K\x01\x90.", b"(K\x01\x91.", b"cos\nsystem\n(S'a'\ntRcos\nsystem\n(S'a'\ntR\x86.",
           b"c__builtin__\neval\n(c__builtin__\neval\n(S'1'\ntRtR.", b"(S'x'\ni__builtin__\nexec\n.", b"ceval\neval\n.", b"cx\neval\ncx\neval\n\x86."]


# a duplicate / misplaced PROTO at every opcode position 2..40 (the rules render the position as an English ordinal)
for _pos in range(2, 41):
    SPECIAL.append(b"\x80\x04" + b"N0" * ((_pos - 2) // 2) + (b"N" if (_pos - 2) % 2 else b"") + b"\x80\x04" + (b"0" if (_pos - 2) % 2 else b"") + b"N.")
    SPECIAL.append(b"\x80\x02" + b"N0" * ((_pos - 2) // 2) + (b"N" if (_pos - 2) % 2 else b"") + b"\x80\x03" + (b"0" if (_pos - 2) % 2 else b"") + b"N.")


def special(i: int) -> bool:
    """
    pre: 0 <= i < 128
    post: _
    """
    if i >= len(SPECIAL):
        return True
    i = pin(i, 0, len(SPECIAL) - 1)
    with native():
        return total(SPECIAL[i])


C_MODS_T = [C_MODS]
ATTRS_T = [ATTRS]


def lemmas(tier):
    q = tier == "quick"
    C_MODS_T[0] = C_MODS if q else MODS
    L = []
    ns = 16
    for s in range(ns):
        L.append(Lemma("total_%d" % s, make_lemma(s, ns), timeout=400 if q else 3000, dry=[{"mi": 0, "ni": 0, "rk": 0, "ck": 0, "second": 0}, {"mi": 1, "ni": 3, "rk": 1, "ck": 1, "second": 1}],
                       doc={"F": ["module from shard %d/%d of %d modules" % (s, ns, len(C_MODS_T[0])), "attribute from %d harvested names (eval, exec, open, load, getitem, ... arrive by themselves)" % len(ATTRS),
                                  "resolve in GLOBAL/STACK_GLOBAL/INST", "call in none/REDUCE/OBJ", "second import: none / same attribute from another module / benign call"],
                            "bound": "single gadget (+ optional second import)"}))
    L.append(Lemma("special", special, timeout=120, dry=[{"i": 5}], doc={"F": ["%d programs: hand-made (NEWOBJ_EX, BINPERSID, sets, nested evals, ...) and a duplicate / version-changing PROTO at every opcode position 2..40" % len(SPECIAL)]}))
    return L
