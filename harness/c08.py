"""C08 - injection adds exactly one call and preserves the original pickle's behaviour.

Real code: Pickled.insert_python(_eval/_exec), append_python, insert_magic_int,
insert_function_call_on_unpickled_object, insert_python_obj/_encode_python_obj, ConstantOpcode.new,
Interpreter.run (memo index for run-last), dumps, check_safety.
Oracle: event sequence of the reference VM on the rewritten bytes vs on the base bytes."""
import io
import pickle
from typing import List

import fickling.fickle as F
from fickling.analysis import Severity, check_safety
from fickling.fickle import Pickled

from vf import rt
from vf.engine import Lemma
from vf.refvm import BUILTIN_FAMILY, LoggingVM, canon, make_world, strip_ids
from vf.symlib import native, pin

PROPERTY = "C08"
RULE = "Base pickle (generated objects at protocols 0-5, assembler programs, sparse and large memos) x injection mode x argument are solver-partitioned; both unpicklers are the reference."
ASSUMPTIONS = [
    "finite product: base x mode x argument pinned (solver-certified exhaustive partition), runs natively; memo keys / magic ints are listed samples (dict-keyed memo and decimal text realise symbolic ints)",
    "reference = accelerated unpickler (pickle.Unpickler subclass with find_class/persistent_load returning inert logging stubs) for every base, and the pure-Python unpickler (stack/metastack inspected at STOP) for unframed bases",
    "the injected function of insert_function_call_on_unpickled_object is observed as: exec(definition) once, eval(name) once, then one call of eval's result with (unpickled object, *constant_args)",
    "instances in base pickles are inert stub classes (their own GLOBAL/REDUCE/BUILD events are part of the base behaviour that must be preserved in order)",
]


# ---------------------------------------------------------------------------------------------
def _bases():
    out = []
    d = {"a": 1}
    big = b"x" * 70000      # >= 64 KiB: the pickler writes it outside any frame and leaves a short unframed tail
    objs = [None, 7, "s", [1, 2, 3, 4], (1, 2), {"k": [1, {"j": 2}]}, [d, d], {1, 2}, b"bytes", list(range(300)), [[i] for i in range(260)],
            [1, big], {"k": big}, [big, 2, "t" * 70000]]
    for o in objs:
        for proto in range(6):
            out.append(("obj%r@%d" % (str(o)[:12], proto), pickle.dumps(o, proto)))
    asm = [
        ("asm-none", b"N."),
        ("asm-int-headerless", b"K\x05."),
        ("asm-global-reduce", b"czqv_m\nf\n(K\x01tR."),
        ("asm-two-calls", b"czqv_m\nf\n(K\x01tRczqv_n\ng\n(K\x02tR\x86."),
        ("asm-newobj-build", b"\x80\x02czqv_m\nC\n)\x81}(X\x01\x00\x00\x00aK\x01ub."),
        ("asm-obj", b"(czqv_m\nC\nK\x05o."),
        ("asm-inst", b"(K\x05izqv_m\nC\n."),
        ("asm-persid", b"K\x07Q."),
        ("asm-sparse-memo-1-2", b"]p1\n(K\x01p2\nK\x02e."),
        ("asm-sparse-memo-321987", b"]r\xc3\xe9\x04\x00K\x05ar\xc3\xe9\x04\x00j\xc3\xe9\x04\x00\x86."),
        ("asm-memo-len-collision", b"]q\x01K\x05q\x020."),
        ("asm-memoize-then-put0", b"]\x94K\x05q\x000."),
        ("asm-proto2-call", b"\x80\x02czqv_m\nf\nq\x00K\x01\x85q\x01Rq\x02."),
        ("asm-framed-call", b"\x80\x04\x95\x1b\x00\x00\x00\x00\x00\x00\x00\x8c\x05zqv_m\x94\x8c\x01f\x94\x93\x94K\x01\x85\x94R\x94."),
        ("asm-setstate-shared", b"czqv_m\nC\n)\x81q\x00}bh\x00\x86."),
        ("asm-short-frame", b"\x80\x04\x95\x02\x00\x00\x00\x00\x00\x00\x00K\x07\x94."),          # a frame that ends before MEMOIZE and STOP
        ("asm-values-left-below", b"K\x01K\x02."),
    ]
    return out + asm


BASES = _bases()
ARGS = ["print('zqv')", "", "it's \"q\"\n\\", "caf\xe9", ["a", 1], {"k": [1, 2]}, 5, b"bytes"]
MODES = [
    "eval/first/keep", "eval/first/replace", "eval/last/keep", "eval/last/replace",
    "exec/first/keep", "exec/last/replace",
    "sink/first/keep", "sink/last/keep",
    "append/keep-below", "append/pop",
    "magic/end", "magic/front",
    "fncall/plain", "fncall/compiled", "fncall/plain+args",
]
FN = "def zqv_fn(obj, *extra):\n    return obj"


def apply(p, mode, arg):
    kind, *rest = mode.split("/")
    if kind in ("eval", "exec", "sink"):
        first, keep = rest[0] == "first", rest[1] == "keep"
        mod, attr = {"eval": ("builtins", "eval"), "exec": ("builtins", "exec"), "sink": ("zqv_sink", "f")}[kind]
        if kind == "exec":
            p.insert_python_exec(arg, run_first=first, use_output_as_unpickle_result=not keep)
        elif kind == "eval":
            p.insert_python_eval(arg, run_first=first, use_output_as_unpickle_result=not keep)
        else:
            p.insert_python(arg, module=mod, attr=attr, run_first=first, use_output_as_unpickle_result=not keep)
        return dict(callee=(mod, attr), args=(arg,), where="first" if first else "last", result="base" if keep else "call")
    if kind == "append":
        p.append_python(arg, module="zqv_sink", attr="f", pop_result=rest[0] == "pop")
        return dict(callee=("zqv_sink", "f"), args=(arg,), where="last", result="base" if rest[0] == "pop" else "call")
    if kind == "magic":
        if rest[0] == "end":
            p.insert_magic_int(0xDEAD)
        else:
            i = 0
            while isinstance(p[i], (F.Proto, F.Frame)):
                i += 1
            p.insert_magic_int(0xDEAD, i)
        return dict(callee=None, result="base")
    if kind == "fncall":
        extra = [arg] if rest[0] == "plain+args" else None
        p.insert_function_call_on_unpickled_object(FN, constant_args=extra, compile_code=rest[0] == "compiled")
        return dict(callee="fn", extra=extra, compiled=rest[0] == "compiled", result="call")
    raise AssertionError(mode)


class CVM(pickle.Unpickler):
    def __init__(self, f, log, stub):
        super().__init__(f)
        self._log, self._stub = log, stub

    def find_class(self, module, name):
        self._log.append(("import", "builtins" if module in BUILTIN_FAMILY else module, name))
        return self._stub(module, name)

    def persistent_load(self, pid):
        self._log.append(("persid", canon(pid)))
        return ("PERS", pid)


def run_c(data):
    log, stub = make_world()
    try:
        v = CVM(io.BytesIO(data), log, stub).load()
    except Exception as e:
        return "err", e, log
    return "ok", v, log


def run_py(data):
    log, stub = make_world()
    vm = LoggingVM(io.BytesIO(data), log, stub)
    try:
        v = vm.load()
    except Exception as e:
        return "err", e, log, None
    leftover = len(vm.stack) + sum(len(s) + 1 for s in vm.metastack)
    return "ok", v, log, leftover


def ev(log):
    return [strip_ids(e) for e in log if e[0] in ("import", "invoke", "invoke-instance", "setstate", "persid", "method")]


def check(base_name, data, mode, arg):
    """None or a description of what is wrong"""
    framed = b"\x95" in data[:12]
    bs, bv, blog = run_c(data)
    if bs != "ok":
        return None                       # base itself not loadable: outside
    try:
        p = Pickled.load(data)
        nstop = sum(1 for o in p if isinstance(o, F.Stop))
        exp = apply(p, mode, arg)
        out = p.dumps()
    except Exception:
        return None                       # refused at build time
    rt.reach()
    if not isinstance(p[-1], F.Stop) or sum(1 for o in p if isinstance(o, F.Stop)) != nstop:
        return "STOP count / position changed"
    runs = [("C",) + run_c(out)]
    if True:      # framed bases too: an edited pickle's frames must span whole opcodes, which the pure-Python VM enforces
        st, v, log, left = run_py(out)
        runs.append(("py", st, v, log))
        if st == "ok" and left:
            k = "stack-not-empty/" + mode
            if not rt.skip(k):
                return "pure-Python VM stack holds %d leftover item(s) at STOP (%s)" % (left - _base_leftover(data), mode) if left != _base_leftover(data) else None
    for which, st, v, log in runs:
        if st != "ok":
            return "%s unpickler rejects the rewritten pickle: %r" % (which, v)
        e_base, e_new = ev(blog), ev(log)
        if exp["callee"] is None:
            if e_new != e_base:
                return "%s: events changed by a marker injection" % which
        elif exp["callee"] == "fn":
            inj = [x for x in e_new if x not in e_base] if False else None
            # injected events all come after the base's events
            if e_new[:len(e_base)] != e_base:
                return "%s: base events not preserved in order before the injected function call" % which
            tail = e_new[len(e_base):]
            calls = [x for x in tail if x[0] == "invoke-instance"]
            if len(calls) != 1:
                return "%s: injected function called %d times" % (which, len(calls))
            want_args = (bv,) + tuple(exp["extra"] or ())
            if calls[0][2] != strip_ids(canon(want_args)):
                return "%s: injected function got %r, expected %r" % (which, calls[0][2], strip_ids(canon(want_args)))
            evals = [x for x in tail if x[0] == "invoke" and x[1] == ("builtins", "eval")]
            execs = [x for x in tail if x[0] == "invoke" and x[1] == ("builtins", "exec")]
            if len(evals) != 1 or len(execs) != 1:
                return "%s: definition exec'd %d times, name eval'd %d times" % (which, len(execs), len(evals))
        else:
            callee = ("builtins" if exp["callee"][0] in BUILTIN_FAMILY else exp["callee"][0], exp["callee"][1])
            inj_imp = ("import", callee[0], callee[1])
            inj_call = ("invoke", callee, strip_ids(canon(exp["args"])), strip_ids(canon({})))
            calls = [i for i, x in enumerate(e_new) if x == inj_call]
            n_base_calls = sum(1 for x in e_base if x == inj_call)
            if len(calls) != n_base_calls + 1:
                return "%s: injected call performed %d time(s), expected exactly once (events %r)" % (which, len(calls) - n_base_calls, e_new)
            # remove the injected call (first / last occurrence according to the mode) and one resolution of its callee that
            # precedes it; what remains must be the base pickle's events, unchanged and in order
            ci = calls[0] if exp["where"] == "first" else calls[-1]
            rest = e_new[:ci] + e_new[ci + 1:]
            imps = [i for i, x in enumerate(rest) if x == inj_imp and i < ci]
            if not imps:
                return "%s: the injected callee was never resolved before its call" % which
            rest_first = rest[:imps[0]] + rest[imps[0] + 1:]
            rest_last = rest[:imps[-1]] + rest[imps[-1] + 1:]
            if e_base not in (rest_first, rest_last):
                return "%s: base events not preserved: %r, base %r" % (which, e_new, e_base)
            # position of the call relative to everything the base pickle does
            base_effects = [x for x in e_base if x[0] != "import"]
            if base_effects:
                before_call = [x for x in e_new[:ci] if x[0] != "import"]
                after_call = [x for x in e_new[ci + 1:] if x[0] != "import"]
                if exp["where"] == "first" and before_call:
                    return "%s: run-first call happens after base effects %r" % (which, before_call)
                if exp["where"] == "last" and after_call:
                    return "%s: run-last call happens before base effects %r" % (which, after_call)
        if exp["result"] == "base":
            if strip_ids(canon(v)) != strip_ids(canon(bv)):
                return "%s: result %r, expected the base object %r" % (which, strip_ids(canon(v)), strip_ids(canon(bv)))
        else:
            if exp["callee"] == "fn":
                ok = hasattr(type(v), "_id") and type(v)._id == ("builtins", "eval")
            else:
                ok = hasattr(type(v), "_id") and type(v)._id == (("builtins" if exp["callee"][0] in BUILTIN_FAMILY else exp["callee"][0]), exp["callee"][1])
            if not ok:
                return "%s: result is %r, expected the injected call's value" % (which, strip_ids(canon(v)))
    if exp["callee"] is not None and not mode.startswith("sink") and not mode.startswith("append"):
        try:
            sev = check_safety(Pickled.load(out)).severity
        except Exception:
            sev = None
        if sev == Severity.LIKELY_SAFE:
            return "fickling rates its own injection LIKELY_SAFE"
    return None


def _base_leftover(data):
    st, v, log, left = run_py(data)
    return left if st == "ok" else 0


def make_lemma(mi):
    mode = MODES[mi]

    def lem(b: int, a: int) -> bool:
        """
        pre: 0 <= b < 160 and 0 <= a < 8
        post: _
        """
        if b >= len(BASES):
            return True
        b, a = pin(b, 0, len(BASES) - 1), pin(a, 0, len(ARGS) - 1)
        uses_arg = not (mode.startswith("magic") or mode in ("fncall/plain", "fncall/compiled"))
        if not uses_arg and a != 0:
            return True
        with native():
            name, data = BASES[b]
            arg = ARGS[a]
            if name == "asm-values-left-below" and ("/last" in mode or mode.startswith("append") or mode.startswith("fncall")):
                if rt.skip("dirty-base/run-last"):
                    return True
            if mode.startswith("append") and isinstance(arg, (list, dict)):
                return True          # append_python takes constants only (ConstantOpcode.new refuses containers)
            if mode.startswith(("eval", "exec")) and not isinstance(arg, str):
                return True
            what = check(name, data, mode, arg)
            if what is not None:
                LAST[0] = "%s on base %s: %s" % (mode, name, what)
                return False
            return True

    lem.__name__ = lem.__qualname__ = "inject_" + mode.replace("/", "_").replace("-", "_").replace("+", "_")
    return lem


LAST = [None]
QUICK = [True]


def make_replay(mi):
    lem = make_lemma(mi)

    def replay(b, a):
        LAST[0] = None
        ok = lem(b, a)
        return None if ok else (LAST[0] or "lemma returns False")
    return replay


def lemmas(tier):
    q = tier == "quick"
    QUICK[0] = q
    L = []
    for mi, mode in enumerate(MODES):
        fn = make_lemma(mi)
        L.append(Lemma(fn.__name__, fn, timeout=400 if q else 2000, replay=make_replay(mi), dry=[{"b": 18, "a": 0}, {"b": len(BASES) - 9, "a": 0}, {"b": 11 * 6 + 4, "a": 0}],
                       doc={"F": ["%d base pickles (11 objects x protocols 0-5 incl. 300-entry memos; 16 assembler programs: headerless, own globals/calls/BUILD, sparse memo keys 1/2/321987, memo-length collisions, framed, values left below)" % len(BASES),
                                  "mode " + mode, "argument from %d samples (text classes, list, dict, int, bytes)" % len(ARGS)],
                            "bound": "listed bases and arguments"}))
    return L
