"""C12 - hook lifecycle: protection holds while armed and is restored exactly on exit.

Bounded histories over the real hook.run_hook / activate_safe_ml_environment / remove_hook /
FicklingContextManager.__enter__/__exit__ acting on the real pickle / _pickle module attributes,
compared after every step with an explicit lifecycle model."""
import io
import pickle
from typing import List

import _pickle
import fickling
import fickling.hook as hook
import fickling.loader as loader
from fickling.exception import UnsafeFileError

from harness.c02 import _ensure_sink, _SINK_LOG
from vf import rt
from vf.engine import Lemma
from vf.symlib import native, pin

PROPERTY = "C12"
RULE = "Operation sequences (alphabet of 9 operations) are solver-partitioned up to the length bound; finite-state, native after pinning."
ASSUMPTIONS = [
    "finite-state property: no genuinely symbolic dimension; the solver certifies that the partition of the history space is exhaustive",
    "the model demands only what README/docstrings promise: the global check and the context manager protect pickle.load; the safe ML environment protects pickle.load, pickle.loads, _pickle.load, _pickle.loads",
    "well-nested use: removing hooks inside an open context is outside the bound; arming or activating inside an open context suspends every claim of the model until the next remove with no context open, where the four bindings must again be the originals; contexts nest up to depth 3",
    "flagged probe = a pickle calling an inert sink global from a non-stdlib, non-allow-listed module (flagged by the static check and blocked by the ML allowlist); a second probe (a bare stdlib global outside the allowlist, LIKELY_SAFE statically) must be refused through every entry point whenever the ML environment is active",
]

ORIG = (pickle.load, pickle.loads, _pickle.load, _pickle.loads)
FLAGGED = b"czqv_sink\nf\n(K\x01tR."
# rated LIKELY_SAFE by the static check (a bare reference to a stdlib global) but outside the ML allowlist: while the safe
# ML environment is active every entry point must refuse it, whatever else is armed on top
ML_ONLY = b"cdatetime\ndate\n."
OPS = ["arm", "activate", "activate+adds", "remove", "enter", "exit", "exit-exc", "probe-load", "probe-loads", "enter-precreated"]
# "enter-precreated": enter a context manager object that was created at the very start of the history (before anything
# was armed): what matters is the protection in force when the block is ENTERED
HMAX = [4]


class Boom(Exception):
    pass


def make_history(first):
    def lem(h: List[int]) -> bool:
        """
        pre: len(h) <= 5 and all(0 <= x < 10 for x in h)
        post: _
        """
        if len(h) + 1 > HMAX[0]:
            return True
        ops = [first] + [pin(x, 0, 9) for x in h]
        with native():
            return _run(ops)

    lem.__name__ = lem.__qualname__ = "history_" + OPS[first].replace("-", "_").replace("+", "_")
    return lem


def bindings():
    return (pickle.load, pickle.loads, _pickle.load, _pickle.loads)


def _blocked(fn, arg):
    del _SINK_LOG[:]
    try:
        fn(arg)
    except UnsafeFileError:
        return not _SINK_LOG
    except Exception:
        return False
    return False


def _run(ops):
    _ensure_sink()
    G = False           # global check armed
    M = False           # ML environment active
    stack = []          # open contexts: (manager, binding of pickle.load at entry, other three at entry)
    precreated = fickling.check_safety()
    ok = True
    nontrivial = False
    try:
        tainted = False     # a protection was armed while a context was open: the model makes no claim until the next remove
        for op in ops:
            name = OPS[op]
            if name in ("arm", "activate", "activate+adds") and stack:
                tainted = True
            if name == "remove" and stack:
                return True          # removing hooks inside an open context is outside the bound (see ASSUMPTIONS)
            if name == "arm":
                fickling.always_check_safety()
                G = True
            elif name == "activate":
                fickling.activate_safe_ml_environment()
                M = True
            elif name == "activate+adds":
                fickling.activate_safe_ml_environment(also_allow=["zqv_ok.g"])
                M = True
            elif name == "remove":
                hook.remove_hook()
                G = M = False
                tainted = False
                ok = ok and bindings() == ORIG and all(a is b for a, b in zip(bindings(), ORIG))
            elif name in ("enter", "enter-precreated"):
                if len(stack) >= 3:
                    return True
                before = bindings()
                cm = fickling.check_safety() if name == "enter" else precreated
                cm.__enter__()
                stack.append((cm, before))
                ok = ok and bindings()[1:] == before[1:]
                nontrivial = True
            elif name in ("exit", "exit-exc"):
                if not stack:
                    return True
                cm, before = stack.pop()
                if name == "exit":
                    cm.__exit__(None, None, None)
                else:
                    e = Boom()
                    swallowed = cm.__exit__(Boom, e, None)
                    ok = ok and not swallowed
                now = bindings()
                # restores precisely the protection in force on entry: an entry point that was the original on entry is
                # the original again (nothing left behind); one that was protected on entry still refuses a flagged pickle
                if not tainted:
                    for j in range(4):
                        if before[j] is ORIG[j]:
                            ok = ok and now[j] is ORIG[j]
                        elif j == 0:
                            ok = ok and _blocked(now[0], io.BytesIO(FLAGGED))
            elif name == "probe-load" and not tainted:
                if G or M or stack:
                    ok = ok and _blocked(pickle.load, io.BytesIO(FLAGGED))
                if M:
                    ok = ok and _blocked(_pickle.load, io.BytesIO(FLAGGED))
                    ok = ok and _blocked(pickle.load, io.BytesIO(ML_ONLY)) and _blocked(_pickle.load, io.BytesIO(ML_ONLY))
            elif name == "probe-loads" and not tainted:
                if M:
                    ok = ok and _blocked(pickle.loads, FLAGGED) and _blocked(_pickle.loads, FLAGGED)
                    ok = ok and _blocked(pickle.loads, ML_ONLY) and _blocked(_pickle.loads, ML_ONLY)
            # invariant after every step: documented protection is in force
            if not tainted:
                if G or M or stack:
                    ok = ok and pickle.load is not ORIG[0]
                if M:
                    ok = ok and all(a is not b for a, b in zip(bindings(), ORIG))
            if not ok:
                break
        # with statement form, normal and exceptional exit, from the final state
        if ok and not stack and not tainted:
            before = bindings()
            try:
                with fickling.check_safety():
                    inner_ok = _blocked(pickle.load, io.BytesIO(FLAGGED))
                    raise Boom()
            except Boom:
                pass
            ok = ok and inner_ok and all(a is b for a, b in zip(bindings(), before))
            if G or M:
                ok = ok and _blocked(pickle.load, io.BytesIO(FLAGGED))
    finally:
        while stack:
            cm, _ = stack.pop()
            cm.__exit__(None, None, None)
        # harness-owned reset (not via the code under test): nothing may leak into the next explored history
        pickle.load, pickle.loads, _pickle.load, _pickle.loads = ORIG
    rt.reach(nontrivial or G or M)
    return ok


def lemmas(tier):
    q = tier == "quick"
    HMAX[0] = 4 if q else 5
    L = []
    for first in range(len(OPS)):
        if OPS[first] in ("exit", "exit-exc", "enter-precreated"):
            continue      # a history cannot start by leaving a context; a pre-created manager entered first is a plain enter
        fn = make_history(first)
        L.append(Lemma(fn.__name__, fn, timeout=300 if q else 1500, dry=[{"h": [4, 7, 5]}, {"h": [4, 4, 6]}, {"h": [8, 3, 7]}, {"h": [1, 5, 3]}, {"h": [4, 2, 6]}, {"h": [9, 5, 7]}, {"h": [9, 9, 5]}],
                       doc={"F": ["histories starting with %r, length <= %d over %s" % (OPS[first], HMAX[0], OPS)],
                            "bound": "length <= %d, context depth <= 3, then one with-statement round trip (exit by exception) from the final state" % HMAX[0]}))
    return L
