"""C01 - analysis is inert: inspecting a pickle never executes any part of it.

Real code: Pickled.load, StackedPickle.load, Interpreter.run / every Opcode.run, ast.unparse, Trace.run,
check_safety (every rule), is_likely_safe, cli.main (decompile, --trace, --check-safety).
The assertion is an effect monitor: CPython audit events + a sys.meta_path recorder, armed only while
the entry point runs and attributed to fickling frames."""
import ast
import contextlib
import io
import os
import sys
import tempfile
from typing import List

import fickling.tracing as tracing
from fickling.analysis import check_safety, is_likely_safe
from fickling.fickle import Interpreter, Pickled, StackedPickle

from harness.c06 import patched_io
from harness.c10 import run_cli
from vf import rt
from vf.engine import Lemma
from vf.gadgets import gadget, with_fate
from vf.symlib import SymStream, native, pin

PROPERTY = "C01"
FICKLING_DIR = os.path.join(os.environ.get("VERIF_REPO", "/repo").rstrip("/"), "fickling") + "/"
RULE = ("Inputs = gadget programs naming dangerous and probe globals through every global-resolving and call-making opcode; int "
        "arguments and trailing bytes symbolic; truncations at every byte position and byte-level corruptions enumerated per cell; "
        "8 entry points. The check is an audit-event / import-machinery monitor, evaluated whether the entry point returns or raises.")
ASSUMPTIONS = [
    "effects are observed through CPython audit events (import, exec, compile, open, os.system, os.exec*, os.posix_spawn, os.fork, subprocess.Popen, socket.*, ctypes.dlopen, pickle.find_class, marshal.loads) and a sys.meta_path recorder for probe module names; an effect that raises no audit event and touches no import machinery is invisible",
    "exec / compile events count only when the compiled text or code object mentions a name or string constant taken from the input",
    "an event counts when a /repo/fickling frame is on the stack nearer than any CrossHair/z3 frame; exec/compile events raised while the import system loads a non-probe module (lazy stdlib imports) are not attributed to the input",
    "the declared JSON report of --check-safety is the only file that may be opened for writing",
    "polyglot / pytorch entry points are outside the property's entry-point list",
]

NAMES = [("os", "system"), ("subprocess", "Popen"), ("builtins", "eval"), ("__builtin__", "__import__"), ("zqv_inert_a", "f"),
         ("zqv_inert_b.sub", "g"), ("socket", "create_connection"), ("marshal", "loads"), ("importlib", "import_module"), ("ctypes", "CDLL"),
         ("this.zen", "lines"), ("chunk.zqv", "f"), ("_codecs", "encode"), ("zqv_lazy", "heavy"), ("zqv_lazy", "Klass")]
# string arguments: a shell-ish text and codec names that are not loaded by an idle interpreter
ARGS = ["echo zqv_inert_c", "cp037", "bz2_codec"]
# (resolve kind, call kind) templates: every global-resolving opcode and every call-making opcode occurs
TEMPLATES = [(0, 1), (0, 4), (0, 5), (0, 6), (1, 1), (3, 2), (4, 3), (5, 1), (5, 0), (0, 7), (0, 0), (0, 8), (1, 8)]
FATES = [0, 1, 2]
ENTRIES = ["parse", "stacked", "decompile", "trace", "check_safety", "cli_decompile", "cli_trace", "cli_check_safety", "is_likely_safe"]
BYTE_SAMPLES = [0x00, 0x28, 0x2e, 0x52, 0x63, 0x69, 0x80, 0x93, 0xff]

# ---------------------------------------------------------------------------------------------
EVENTS = []
ARMED = [False]
HOOKED = [False]
DANGEROUS_EVENTS = ("os.system", "os.exec", "os.posix_spawn", "os.spawn", "os.fork", "os.forkpty", "subprocess.Popen", "ctypes.dlopen",
                    "ctypes.dlsym", "pickle.find_class", "marshal.loads", "os.startfile")


def _attribute():
    """('fickling' | 'import' | None): nearest relevant frame"""
    f = sys._getframe(2)
    importing = False
    while f is not None:
        fn = f.f_code.co_filename
        if "/crosshair/" in fn or "/z3/" in fn:
            return None
        if "importlib._bootstrap" in fn or fn.startswith("<frozen importlib"):
            importing = True
        if fn.startswith(FICKLING_DIR):
            return "import" if importing else "fickling"
        f = f.f_back
    return None


ALL_TOKENS = set()      # every name / string constant of the program under analysis


def _mentions_input(args):
    """compiling or executing text is the input's doing only if that text (or code object) carries something taken from
    the input: a module / attribute name or a string constant of the program"""
    a = args[0] if args else None
    if hasattr(a, "co_names"):
        words = set(a.co_names) | {x for x in a.co_consts if isinstance(x, str)}
        return bool(words & ALL_TOKENS) or any(t in w for w in words if isinstance(w, str) for t in ALL_TOKENS if len(t) >= 4)
    if isinstance(a, (bytes, bytearray)):
        a = bytes(a).decode("latin-1")
    if isinstance(a, str):
        return any(t in a for t in ALL_TOKENS if len(t) >= 2)
    return True      # AST objects etc.: be conservative


def _hook(ev, args):
    if not ARMED[0]:
        return
    if ev == "marshal.loads":
        # the import system unmarshals .pyc files of lazily imported stdlib modules (codecs, json, ...): only a direct use counts
        if _attribute() == "fickling":
            EVENTS.append((ev, repr(args)[:60]))
    elif ev in DANGEROUS_EVENTS or ev.startswith("socket."):
        if _attribute() is not None:
            EVENTS.append((ev, repr(args)[:120]))
    elif ev in ("exec", "compile"):
        if _attribute() == "fickling" and _mentions_input(args):
            EVENTS.append((ev, repr(args)[:120]))
    elif ev == "open":
        path, mode = args[0], args[1]
        if isinstance(mode, str) and any(c in mode for c in "wax+") and _attribute() is not None:
            if not (isinstance(path, str) and path in ALLOWED_WRITES):
                EVENTS.append((ev, repr((path, mode))))
    elif ev == "import":
        name = args[0]
        if isinstance(name, str) and _attribute() is not None:
            if name.startswith("zqv_inert") or (name.split(".")[0] in TOKENS and name.split(".")[0] not in LOADED_BEFORE):
                EVENTS.append((ev, name))


class _Finder:
    @staticmethod
    def find_spec(name, path=None, target=None):
        if ARMED[0] and name.startswith("zqv_inert"):
            EVENTS.append(("find_spec", name))
        return None


ALLOWED_WRITES = set()
TOKENS = set()           # names taken from the input under analysis (module top-levels, string arguments)
LOADED_BEFORE = set()


def _ensure_lazy():
    """a loaded module with PEP 562 dynamic attributes and a class with a metaclass __getattr__: looking a name up on
    either runs code chosen by whoever named it (numpy/scipy-style lazy sub-module loading)"""
    import types
    if "zqv_lazy" in sys.modules:
        return
    m = types.ModuleType("zqv_lazy")

    def __getattr__(name):
        if ARMED[0]:
            EVENTS.append(("module __getattr__", name))
        raise AttributeError(name)

    class Meta(type):
        def __getattr__(cls, name):
            if ARMED[0]:
                EVENTS.append(("metaclass __getattr__", name))
            raise AttributeError(name)

    m.__getattr__ = __getattr__
    m.Klass = Meta("Klass", (), {"__module__": "zqv_lazy"})
    sys.modules["zqv_lazy"] = m


def _install():
    _ensure_lazy()
    if not HOOKED[0]:
        sys.addaudithook(_hook)
        sys.meta_path.insert(0, _Finder)
        HOOKED[0] = True
    elif sys.meta_path[0] is not _Finder:
        if _Finder in sys.meta_path:
            sys.meta_path.remove(_Finder)
        sys.meta_path.insert(0, _Finder)


@contextlib.contextmanager
def monitored():
    _install()
    del EVENTS[:]
    mods_before = set(sys.modules)
    LOADED_BEFORE.clear()
    LOADED_BEFORE.update(m.split(".")[0] for m in mods_before)
    ARMED[0] = True
    try:
        yield
    finally:
        ARMED[0] = False
    for m in set(sys.modules) - mods_before:
        # a module that appeared during the analysis and is named by the input (module token or string argument)
        if m.startswith("zqv_inert") or any(part in TOKENS for part in m.split(".")):
            EVENTS.append(("sys.modules", m))


def run_entry(entry, data):
    """run one analysis entry point on `data` (bytes, possibly symbolic); every exception of the entry point is
    swallowed: the property holds 'whether the operation returns a result or raises'"""
    name = ENTRIES[entry]
    try:
        if name == "parse":
            Pickled.load(SymStream(data))
        elif name == "stacked":
            for p in StackedPickle.load(SymStream(data)):
                p.dumps()
        elif name == "decompile":
            ast.unparse(Pickled.load(SymStream(data)).ast)
        elif name == "trace":
            with contextlib.redirect_stdout(io.StringIO()):
                tracing.Trace(Interpreter(Pickled.load(SymStream(data)))).run()
        elif name == "check_safety":
            r = check_safety(Pickled.load(SymStream(data)))
            r.to_dict()
        elif name == "cli_decompile":
            run_cli(["fickling"], data)
        elif name == "cli_trace":
            run_cli(["fickling", "--trace"], data)
        elif name == "cli_check_safety":
            run_cli(["fickling", "--check-safety", "--print-results", "--json-output", "zqv_report.json"], data)
        elif name == "is_likely_safe":
            fd, path = tempfile.mkstemp(prefix="vf_c01_")
            try:
                os.write(fd, data)
                os.close(fd)
                is_likely_safe(path)
            finally:
                os.unlink(path)
    except Exception:
        pass


def program(tpl, ni, x, fate, ai=0):
    rk, ck = TEMPLATES[tpl]
    module, name = NAMES[ni]
    TOKENS.clear()
    TOKENS.update({module.split(".")[0], ARGS[ai]})
    ALL_TOKENS.clear()
    ALL_TOKENS.update({module, module.split(".")[0], name, ARGS[ai], "text"})
    TOKENS.difference_update({"builtins", "__builtin__", "os", "sys", "importlib", "marshal", "_codecs"})     # always loaded
    if (module, name) == ("_codecs", "encode"):
        # the protocol 0-2 bytes idiom with an input-chosen codec: _codecs.encode(text, codec)
        from vf.gadgets import strarg
        if ck == 0:
            g = gadget(rk, 0, 0, module, name)
        else:
            g = gadget(rk, 0, 0, module, name)
            if g is None:
                return None
            g = g + b"(" + strarg("text") + strarg(ARGS[ai]) + b"tR"
    else:
        g = gadget(rk, 0, ck, module, name, arg=ARGS[ai])
    if g is None:
        return None
    return b"K" + bytes([x]) + b"0" + with_fate(g, FATES[fate]) + b"."


def make_sym(entry):
    def lem(tpl: int, ni: int, fate: int, x: int, tail: bytes) -> bool:
        """
        pre: 0 <= tpl < 13 and 0 <= ni < 15 and 0 <= fate < 3 and 0 <= x < 256 and len(tail) <= 2
        post: _
        """
        if QUICK[0] and (fate != (tpl % 3) or ni not in (0, 2, 4, 10, 13) or len(tail) > 1):
            return True
        tpl, ni, fate = pin(tpl, 0, len(TEMPLATES) - 1), pin(ni, 0, len(NAMES) - 1), pin(fate, 0, 2)
        if ENTRIES[entry] in PRINTING:
            # these entry points render the int as text (realised digit by digit): keep a 1-bit symbolic value
            if x > 1:
                return True
        if ENTRIES[entry] in ("stacked", "trace", "cli_decompile", "cli_trace", "cli_check_safety") and len(tail) != 0:
            return True      # stack loaders parse the tail as further pickles: symbolic opcodes explode (thorough: corrupt_*)
        data = program(tpl, ni, x, fate)
        if data is None:
            return True
        rt.reach()
        with patched_io():
            with monitored():
                run_entry(entry, data + tail)
        return not EVENTS

    lem.__name__ = lem.__qualname__ = "sym_" + ENTRIES[entry]
    return lem


def make_mut(entry):
    def lem(tpl: int, ni: int) -> bool:
        """
        pre: 0 <= tpl < 13 and 0 <= ni < 15
        post: _
        """
        tpl, ni = pin(tpl, 0, len(TEMPLATES) - 1), pin(ni, 0, len(NAMES) - 1)
        with native():
            return _mutations(entry, tpl, ni) is None

    lem.__name__ = lem.__qualname__ = "mut_" + ENTRIES[entry]
    return lem


LAST = [None]


def _mutations(entry, tpl, ni):
    """every truncation point and byte-level corruptions of the cell's program; returns None or what leaked"""
    base = program(tpl, ni, 7, tpl % 3)
    if base is None:
        return None
    progs = [base] + [base[:t] for t in range(len(base))]
    for ai in (1, 2):
        alt = program(tpl, ni, 7, tpl % 3, ai)      # other string arguments (codec names)
        if alt is not None:
            progs.append(alt)
    program(tpl, ni, 7, tpl % 3)
    TOKENS.update(ARGS)
    step = 1 if not QUICK[0] else 3
    for pos in range(0, len(base), step):
        for b in BYTE_SAMPLES:
            if base[pos] != b:
                progs.append(base[:pos] + bytes([b]) + base[pos + 1:])
    for data in progs:
        rt.reach()
        with monitored():
            run_entry(entry, data)
        if EVENTS:
            LAST[0] = "%s on %r: %r" % (ENTRIES[entry], data, EVENTS[:3])
            return LAST[0]
    return None


def make_corrupt(entry):
    def lem(tpl: int, ni: int, pos: int, b: int) -> bool:
        """
        pre: 0 <= tpl < 13 and 0 <= ni < 15 and 0 <= pos < 64 and 0 <= b < 256
        post: _
        """
        # thorough: one byte at a pinned position takes EVERY value (symbolic), so the parser sees a symbolic opcode/argument
        tpl, ni = pin(tpl, 0, len(TEMPLATES) - 1), pin(ni, 0, len(NAMES) - 1)
        base = program(tpl, ni, 7, 0)
        if base is None or pos >= len(base):
            return True
        pos = pin(pos, 0, len(base) - 1)
        data = base[:pos] + bytes([b]) + base[pos + 1:]
        rt.reach()
        with patched_io():
            with monitored():
                run_entry(entry, data)
        return not EVENTS

    lem.__name__ = lem.__qualname__ = "corrupt_" + ENTRIES[entry]
    return lem


def monitor_selftest(k: int) -> bool:
    """
    pre: 0 <= k < 6
    post: _
    """
    # the monitor must see each kind of effect when a (simulated) fickling frame causes it: guards against a blind monitor
    k = pin(k, 0, 5)
    with native():
        code = [
            "import importlib.util; importlib.util.find_spec('zqv_inert_probe')",
            "eval('1+1')",
            "import ast; ast.literal_eval('[1]')",
            "open(%r, 'w').close()" % os.path.join(tempfile.gettempdir(), "vf_c01_selftest"),
            "import pickle, io\ntry:\n    pickle.loads(b'cos\\ngetpid\\n.')\nexcept Exception:\n    pass",
            "import os; os.system('true')",
        ][k]
        co = compile(code, FICKLING_DIR + "_selftest_.py", "exec")
        ALL_TOKENS.clear()
        ALL_TOKENS.update({"1+1", "[1]"})          # what the simulated input "contains"
        with monitored():
            try:
                exec(co, {})
            except Exception:
                pass
        rt.reach()
        seen = list(EVENTS)
        del EVENTS[:]
        return bool(seen)


QUICK = [True]
PRINTING = ("trace", "cli_decompile", "cli_trace")


def lemmas(tier):
    q = tier == "quick"
    QUICK[0] = q
    L = [Lemma("monitor_selftest", monitor_selftest, timeout=120, dry=[{"k": 0}, {"k": 1}, {"k": 5}],
               doc={"F": ["6 effects (find_spec of a probe module, eval, literal_eval, file write, real unpickling, os.system) performed from a frame that claims to be fickling: the monitor must report each"],
                    "bound": "guards against a blind monitor"})]
    for e, name in enumerate(ENTRIES):
        if name != "is_likely_safe":
            L.append(Lemma("sym_" + name, make_sym(e), timeout=300 if q else 1500, dry=[{"tpl": 0, "ni": 0, "fate": 0, "x": 5, "tail": b""}, {"tpl": 4, "ni": 4, "fate": 1, "x": 0, "tail": b"c"}],
                           doc={"S": ["x: BININT1 value in front of the gadget (all 256)", "tail: <=2 arbitrary trailing bytes (may start another opcode)"],
                                "F": ["template (13: every global-resolving x call-making opcode, OBJ with and without arguments)", "global (15 dangerous/probe names incl. a loaded module with dynamic attributes and a class with a metaclass __getattr__, stdlib packages that are not loaded yet and _codecs.encode with an input-chosen codec)", "fate (3)", "entry point " + name],
                                "bound": "single gadget" + ("; quick: 4 names, one fate per template, tail <= 1 byte" if q else "")}))
        L.append(Lemma("mut_" + name, make_mut(e), timeout=400 if q else 1500, replay=(lambda e_: (lambda tpl, ni: _mutations(e_, tpl, ni)))(e),
                       dry=[{"tpl": 0, "ni": 0}, {"tpl": 7, "ni": 5}],
                       doc={"F": ["solver-partitioned: template x global", "enumerated inside each cell: truncation at every byte position; 1-byte corruption at every %s position with 9 byte values" % ("third" if q else ""),
                                  "entry point " + name], "bound": "listed corruptions"}))
        if not q and name in ("parse", "decompile", "check_safety"):
            L.append(Lemma("corrupt_" + name, make_corrupt(e), timeout=600, dry=[{"tpl": 0, "ni": 0, "pos": 3, "b": 0x52}],
                           doc={"S": ["b: the substituted byte takes every value at a pinned position"], "F": ["template x global x position", "entry point " + name],
                                "bound": "one corrupted byte"}))
    return L
