"""C17 (partial) - format identification follows the documented table; polyglot creation is hygienic.

Real code: polyglot.identify_pytorch_file_format (decision table, precedence, corruption note),
polyglot.create_polyglot and the three constructors, append_file.
Stubs: property discovery (11 solver-chosen booleans) for the table lemma; the identifier's answer
and an I/O fault at a solver-chosen call for the hygiene lemma (real files in a scratch directory).
NOT covered (stated in DESIGN/MANIFEST): marker discovery inside real zip/tar bytes, agreement with
torch's own loader, identification of produced polyglots - all behind zipfile/tarfile/torch I/O."""
import hashlib
import io
import os
import shutil
import tempfile
import zipfile
from typing import List

import fickling.polyglot as P

from vf import rt
from vf.engine import Lemma
from vf.symlib import native, pin, pin_bool

PROPERTY = "C17"
RULE = "Decision table: the 11 discovery results are symbolic booleans. Hygiene: identifier answers and the failing I/O call index are pinned."
ASSUMPTIONS = [
    "property discovery may return any combination of the 11 booleans (stub for find_file_properties / check_if_legacy_format / check_if_model_archive_format)",
    "documented table = README 'PyTorch polyglots' list + module docstring, with the precedence of the list in identify_pytorch_file_format; the 'model.json only' row is not asserted (the code's own corruption note contradicts the README there)",
    "hygiene lemma: the format identifier is a stub returning one of 7 answers per input (incl. 'no format'); one I/O call (shutil.copy / append / zip open) may raise OSError at a chosen index; the cleanup primitives os.remove / shutil.rmtree are not failed",
    "a reported success (create_polyglot returns True) must leave a non-empty output file, under the requested name when one is given",
    "real archive bytes, torch's acceptance and identification of produced polyglots are outside (C boundary)",
]

ORDER = ["TorchScript v1.4", "TorchScript v1.3", "TorchScript v1.0", "TorchScript v1.1", "PyTorch v1.3", "PyTorch v0.1.1",
         "PyTorch v0.1.10", "PyTorch model archive format"]


def table(tz: bool, tar: bool, pk: bool, sz: bool, d: bool, c: bool, v: bool, m: bool, a: bool, leg: bool, mar: bool) -> bool:
    """
    post: _
    """
    props = {"is_torch_zip": tz, "is_tar": tar, "is_valid_pickle": pk, "is_numpy": False, "is_numpy_pickle": False,
             "is_standard_zip": sz, "is_standard_not_torch": sz and not tz,
             "has_data_pkl": d, "has_constants_pkl": c, "has_version": v, "has_model_json": m, "has_attributes_pkl": a}
    saved = (P.find_file_properties, P.check_if_legacy_format, P.check_if_model_archive_format, P.print)  \
        if hasattr(P, "print") else (P.find_file_properties, P.check_if_legacy_format, P.check_if_model_archive_format, None)
    P.find_file_properties = lambda file, print_properties=False: dict(props)
    P.check_if_legacy_format = lambda file: leg
    P.check_if_model_archive_format = lambda file, properties: mar
    P.print = lambda *a_, **k_: None
    try:
        got = P.identify_pytorch_file_format("zqv-no-such-file")
        again = P.identify_pytorch_file_format("zqv-no-such-file")
    finally:
        P.find_file_properties, P.check_if_legacy_format, P.check_if_model_archive_format = saved[:3]
        if saved[3] is None:
            del P.print
        else:
            P.print = saved[3]
    rt.reach(tz)
    if got != again:
        return False
    if len(set(got)) != len(got) or any(g not in ORDER for g in got):
        return False
    # precedence: the documented order
    idx = [ORDER.index(g) for g in got]
    if idx != sorted(idx):
        return False
    has = lambda name: name in got  # noqa
    ok = True
    ok = ok and has("TorchScript v1.4") == (tz and d and c and v)
    ok = ok and has("TorchScript v1.3") == (tz and d and c)
    ok = ok and has("TorchScript v1.1") == (tz and m and a)
    ok = ok and has("PyTorch v1.3") == (tz and d)                 # anything torch's zip loader accepts
    ok = ok and (not has("TorchScript v1.0") or (tz and m))
    ok = ok and (not (tz and m and c) or has("TorchScript v1.0"))
    ok = ok and has("PyTorch v0.1.1") == (tar and leg)
    ok = ok and has("PyTorch v0.1.10") == pk
    ok = ok and has("PyTorch model archive format") == (sz and mar)
    return ok


# ---------------------------------------------------------------------------------------------
ANSWERS = [[], ["PyTorch v1.3"], ["TorchScript v1.4", "TorchScript v1.3", "PyTorch v1.3"], ["PyTorch v0.1.10"],
           ["PyTorch model archive format"], ["PyTorch v0.1.1", "PyTorch v0.1.10"], ["TorchScript v1.1"]]


def _zip_bytes(members):
    b = io.BytesIO()
    with zipfile.ZipFile(b, "w") as z:
        for n, data in members:
            z.writestr(n, data)
    return b.getvalue()


class Fault(OSError):
    pass


def hygiene(a1: int, a2: int, fault: int, named: bool) -> bool:
    """
    pre: 0 <= a1 < 7 and 0 <= a2 < 7 and 0 <= fault <= 12
    post: _
    """
    a1, a2, fault, named = pin(a1, 0, 6), pin(a2, 0, 6), pin(fault, 0, 12), pin_bool(named)
    key = "hygiene/%s" % ("fault" if fault else ("unidentified" if (not ANSWERS[a1] or not ANSWERS[a2]) else "ok"))
    if rt.skip(key):
        return True
    with native():
        return _hygiene(a1, a2, fault, named)


def _hygiene(a1, a2, fault, named):
    work = tempfile.mkdtemp(prefix="vf_c17_")
    inputs = tempfile.mkdtemp(prefix="vf_c17_in_")
    cwd = os.getcwd()
    try:
        f1 = os.path.join(inputs, "first.pt")
        f2 = os.path.join(inputs, "second.pt")
        with open(f1, "wb") as f:
            f.write(_zip_bytes([("m/data.pkl", b"N."), ("m/version", b"3\n")]))
        with open(f2, "wb") as f:
            f.write(_zip_bytes([("s/data.pkl", b"N."), ("s/constants.pkl", b"N."), ("s/version", b"3\n")]))
        before = {p: hashlib.sha256(open(p, "rb").read()).hexdigest() for p in (f1, f2)}
        answers = {"temp_first.pt": ANSWERS[a1], "temp_second.pt": ANSWERS[a2]}
        calls = {"n": 0}

        def tick():
            calls["n"] += 1
            if fault and calls["n"] == fault:
                raise Fault("injected I/O failure at call %d" % fault)

        class FShutil:
            @staticmethod
            def copy(*a, **k):
                tick()
                return shutil.copy(*a, **k)

            @staticmethod
            def rmtree(*a, **k):      # a cleanup primitive that itself fails cannot be cleaned up after: not failed
                return shutil.rmtree(*a, **k)

        def f_append(src, dst):
            tick()
            return real_append(src, dst)

        class FZip:
            BadZipFile = zipfile.BadZipFile

            @staticmethod
            def ZipFile(*a, **k):
                tick()
                return zipfile.ZipFile(*a, **k)

            is_zipfile = staticmethod(zipfile.is_zipfile)

        real_append = P.append_file
        saved = (P.identify_pytorch_file_format, P.shutil, P.append_file, P.zipfile)
        P.identify_pytorch_file_format = lambda file, *a, **k: list(answers[os.path.basename(file)])
        P.shutil, P.append_file, P.zipfile = FShutil, f_append, FZip
        os.chdir(work)
        try:
            try:
                made = P.create_polyglot(f1, f2, "out.bin" if named else None, print_results=False)
                outcome = "ok"
            except Exception as e:
                outcome = type(e).__name__
        finally:
            os.chdir(cwd)
            P.identify_pytorch_file_format, P.shutil, P.append_file, P.zipfile = saved
        rt.reach(True)
        left = sorted(os.listdir(work))
        stray = [n for n in left if n.startswith("temp")]
        unchanged = all(hashlib.sha256(open(p, "rb").read()).hexdigest() == h for p, h in before.items())
        inputs_dir_clean = sorted(os.listdir(inputs)) == ["first.pt", "second.pt"]
        if outcome == "ok" and made is True:
            # success was reported: the polyglot exists, under the requested name if one was given
            produced = [n for n in left if not n.startswith("temp") and os.path.getsize(os.path.join(work, n)) > 0]
            if not produced or (named and "out.bin" not in produced):
                return False
        return not stray and unchanged and inputs_dir_clean
    finally:
        shutil.rmtree(work, ignore_errors=True)
        shutil.rmtree(inputs, ignore_errors=True)


def lemmas(tier):
    q = tier == "quick"
    return [
        Lemma("table", table, timeout=200 if q else 900,
              dry=[dict(tz=True, tar=False, pk=False, sz=True, d=True, c=True, v=True, m=False, a=False, leg=False, mar=False),
                   dict(tz=True, tar=False, pk=True, sz=True, d=False, c=True, v=False, m=True, a=True, leg=False, mar=True)],
              doc={"S": ["11 discovery booleans (is_torch_zip, is_tar, is_valid_pickle, is_standard_zip, 5 marker members, legacy-tar check, model-archive check)"],
                   "bound": "none: the 2048-point domain is covered symbolically"}),
        Lemma("hygiene", hygiene, timeout=300 if q else 900,
              dry=[{"a1": 1, "a2": 2, "fault": 0, "named": False}, {"a1": 3, "a2": 4, "fault": 0, "named": True}],
              doc={"F": ["identifier answer for each input (7 each, incl. none)", "index of the failing I/O call 0(none)..12", "explicit output name or default"],
                   "bound": "two fixed real input archives; one fault per run"}),
    ]
