"""C02 - checked load is fail-closed and loads exactly the bytes it analysed.

Real code: loader.load, hook.run_hook, context.FicklingContextManager, Pickled.load/dumps,
check_safety, Analyzer.analyze, AnalysisResults.severity/to_dict, Severity.__le__, UnsafeFileError.
Stubs: the rule set (solver-chosen severities, or raises), pickle.loads/load spies, and an
adversarial stream that is rewritten and rewound at the moment the analysis runs."""
import pickle
import sys
import types
from typing import List

import _pickle
import fickling
import fickling.analysis as A
import fickling.context as context
import fickling.hook as hook
import fickling.loader as loader
from fickling.analysis import AnalysisResult, Analyzer, Severity
from fickling.exception import UnsafeFileError

from harness.c06 import patched_io
from harness.c10 import NAMES, order
from vf import rt
from vf.engine import Lemma
from vf.symlib import SymStream, native, pin

PROPERTY = "C02"
RULE = ("Verdict (list of finding severities), threshold, analysis-fault flag, payload byte and the byte the adversary "
        "rewrites the stream to are solver variables; arming path, stream kind and exception class are pinned.")
ASSUMPTIONS = [
    "an analysis may return any list of non-LIKELY_SAFE severities or raise (stub rule installed as the default Analyzer)",
    "pickle.loads / pickle.load / _pickle.load(s) are spies in the gate lemmas (the real unpickler runs in the `real_*` lemmas on inert sink globals)",
    "the adversary rewrites and rewinds the stream exactly when the analysis runs (worst case between first pass and load)",
    "BytesIO as seen by fickling.fickle is the pure-Python stream (C boundary)",
    "the context manager ignores its max_acceptable_severity argument (always strictest); not asserted against, the property is one-directional",
]

EXC = [ValueError, IndexError, AttributeError, NotImplementedError, RecursionError, KeyError, TypeError]


MAXLEN = [2]


class Boom(Exception):
    pass


def _install_stub(sevs, boom_cls, on_analysis):
    o = order()

    class Rule:
        def analyze(self, ctx):
            on_analysis()
            if boom_cls is not None:
                raise boom_cls("stub analysis failure")
            for j, s in enumerate(sevs):
                yield AnalysisResult(o[s], "finding %d" % j, "StubRule", trigger="t")

    saved = Analyzer._DEFAULT_INSTANCE
    Analyzer._DEFAULT_INSTANCE = Analyzer([Rule()])
    return saved


def gate(arm, kind, sevs, thr, boom, exc, x, y):
    """returns a dict describing what happened; arm: 0 loader.load(thr) 1 global hook 2 context manager"""
    b1 = b"K" + bytes([x]) + b"."
    b2 = b"K" + bytes([y]) + b"."
    if kind == 0:
        stream = SymStream(b1)
        src = stream
    elif kind == 1:
        stream = None
        src = b1
    else:
        stream = SymStream(b1, seekable=False)
        src = stream
    executed = []
    marks = {"log_at_analysis": None, "analysed": 0}

    def on_analysis():
        marks["analysed"] += 1
        if stream is not None:
            stream.data = b2          # the file changes under our feet ...
            stream.pos = 0            # ... and is rewound for whoever reads it next
            marks["log_at_analysis"] = len(stream.log)

    def spy_loads(data, *a, **k):
        executed.append(("loads", data))
        return ("OBJ", data)

    def spy_load(f, *a, **k):
        executed.append(("load", f))
        return ("BAD", f)

    o_loads, o_load, o_cl, o_cls = pickle.loads, pickle.load, _pickle.load, _pickle.loads
    saved_an = _install_stub(sevs, EXC[exc] if boom else None, on_analysis)
    pickle.loads, pickle.load, _pickle.load, _pickle.loads = spy_loads, spy_load, spy_load, spy_loads
    out = {"outcome": None, "value": None, "info": None, "exc": None}
    try:
        with patched_io():
            try:
                if arm == 0:
                    out["value"] = loader.load(src, max_acceptable_severity=order()[thr])
                elif arm == 1:
                    hook.run_hook()
                    out["value"] = pickle.load(src)
                else:
                    with fickling.check_safety():
                        out["value"] = pickle.load(src)
                out["outcome"] = "ret"
            except UnsafeFileError as e:
                out["outcome"] = "unsafe"
                out["info"] = e.info
            except Exception as e:
                out["outcome"] = "raised"
                out["exc"] = e
    finally:
        pickle.loads, pickle.load, _pickle.load, _pickle.loads = o_loads, o_load, o_cl, o_cls
        Analyzer._DEFAULT_INSTANCE = saved_an
    out["executed"] = executed
    out["b1"] = b1
    out["reads_after"] = 0
    if stream is not None and marks["log_at_analysis"] is not None:
        out["reads_after"] = len([e for e in stream.log[marks["log_at_analysis"]:] if e[0] in ("read", "readline")])
    out["analysed"] = marks["analysed"]
    return out


def make_gate_lemma(arm, kind):
    def lem(sevs: List[int], thr: int, boom: bool, exc: int, x: int, y: int) -> bool:
        """
        pre: len(sevs) <= 3 and all(1 <= s <= 5 for s in sevs)
        pre: 0 <= thr < 6 and 0 <= exc < 7 and 0 <= x < 256 and 0 <= y < 256
        post: _
        """
        if len(sevs) > MAXLEN[0]:
            return True
        exc = pin(exc, 0, len(EXC) - 1)
        if arm != 0:
            if thr != 0:
                return True      # hook / context manager: the documented threshold is LIKELY_SAFE
        if not boom and exc != 0:
            return True
        r = gate(arm, kind, sevs, thr, boom, exc, x, y)
        verdict = max(sevs, default=0)
        rt.reach(boom or verdict > thr)
        loads = [e for e in r["executed"] if e[0] == "loads"]
        if boom:
            # which exception surfaces is not the property's business (it may be wrapped); that nothing was loaded is
            return r["outcome"] in ("raised", "unsafe") and not r["executed"]
        if verdict <= thr:
            return (r["outcome"] == "ret" and len(r["executed"]) == 1 and len(loads) == 1 and loads[0][1] == r["b1"]
                    and r["value"] == ("OBJ", r["b1"]) and r["reads_after"] == 0)
        return (r["outcome"] == "unsafe" and not r["executed"] and isinstance(r["info"], dict)
                and r["info"].get("severity") == NAMES[verdict])

    lem.__name__ = lem.__qualname__ = "gate_%s_%s" % (["loader", "hook", "context"][arm], ["seekable", "bytes", "nonseekable"][kind])
    return lem


# ---------------------------------------------------------------------------------------------
# real analysis, real unpickler, inert sink
_SINK_LOG = []
_FIND = []
_ARMED = [False]
_HOOKED = [False]


def _ensure_sink():
    if "zqv_sink" not in sys.modules:
        m = types.ModuleType("zqv_sink")

        def f(*a, **k):
            _SINK_LOG.append(("call", a, k))
            return "sink-result"

        f.__module__ = "zqv_sink"
        f.__qualname__ = f.__name__ = "f"
        m.f = f
        sys.modules["zqv_sink"] = m
    if not _HOOKED[0]:
        def audit(ev, args):
            if _ARMED[0] and ev == "pickle.find_class":
                _FIND.append(tuple(args[-2:]))
        sys.addaudithook(audit)
        _HOOKED[0] = True


REAL = [
    (b"K\x05.", True), (b"]q\x00(K\x01K\x02e.", True), (b"}q\x00X\x01\x00\x00\x00aK\x01s.", True), (b"(K\x01K\x02t.", True),
    (b"czqv_sink\nf\n(K\x01tR.", False), (b"(czqv_sink\nf\nK\x01o.", False), (b"czqv_sink\nf\n.", False),
    (b"czqv_sink\nf\n)\x810N.", False), (b"\x8c\x08zqv_sink\x8c\x01f\x93)R0K\x01.", False), (b"(K\x01izqv_sink\nf\n.", False),
    (b"czqv_sink\nf\n(K\x01tRczqv_sink\nf\n(K\x02tR\x86.", False),
    (b"czqv_c02_parent.sub\nf\n.", False), (b"\x8c\x12zqv_c02_parent.sub\x8c\x01f\x93)R.", False),      # dotted name whose parent package is importable
    (b"0.", None), (b"\x97.", None), (b"h\x05.", None), (b"K\x01K\x02s.", None), (b"N\x90.", None),   # analysis itself fails
]


def real_gate(i: int, arm: int, kind: int) -> bool:
    """
    pre: 0 <= i < 18 and 0 <= arm < 3 and 0 <= kind < 3
    post: _
    """
    i, arm, kind = pin(i, 0, len(REAL) - 1), pin(arm, 0, 2), pin(kind, 0, 2)
    with native():
        return _real_gate(i, arm, kind)


_PKG = [None]


def _ensure_pkg():
    """an importable package that the probes name only through a sub-module: importing the parent 'to see whether it
    exists' runs its __init__"""
    import atexit
    import os
    import shutil
    import tempfile
    if _PKG[0] is None:
        d = tempfile.mkdtemp(prefix="vf_c02_pkg_")
        os.makedirs(os.path.join(d, "zqv_c02_parent"))
        with open(os.path.join(d, "zqv_c02_parent", "__init__.py"), "w") as f:
            f.write("LOADED = True\n")
        sys.path.append(d)
        _PKG[0] = d
        atexit.register(lambda: shutil.rmtree(d, ignore_errors=True))


def _real_gate(i, arm, kind):
    import io
    _ensure_sink()
    _ensure_pkg()
    for m in [m for m in sys.modules if m.startswith("zqv_c02_parent")]:
        del sys.modules[m]
    data, benign = REAL[i]
    src = [io.BytesIO(data), data, SymStream(data, seekable=False)][kind]
    del _SINK_LOG[:], _FIND[:]
    o_load = pickle.load
    _ARMED[0] = True
    try:
        try:
            if arm == 0:
                v = loader.load(src)
            elif arm == 1:
                hook.run_hook()
                v = pickle.load(src)
            else:
                with fickling.check_safety():
                    v = pickle.load(src)
            outcome = "ret"
        except UnsafeFileError:
            outcome = "unsafe"
        except Exception:
            outcome = "raised"
    finally:
        _ARMED[0] = False
        pickle.load = o_load
    rt.reach(not benign)
    if benign is True:
        return outcome == "ret" and v == pickle.loads(data) and type(v) is type(pickle.loads(data))
    imported = [m for m in sys.modules if m.startswith("zqv_c02_parent")]
    if benign is False:
        return outcome == "unsafe" and not _SINK_LOG and not _FIND and not imported
    # analysis cannot decompile: any exception, but nothing may have been resolved or called
    return outcome in ("raised", "unsafe") and not _SINK_LOG and not _FIND and not imported


def lemmas(tier):
    q = tier == "quick"
    _ensure_pkg()
    MAXLEN[0] = 2 if q else 3
    L = []
    for arm in (0, 1, 2):
        for kind in (0, 1, 2):
            nm = "gate_%s_%s" % (["loader", "hook", "context"][arm], ["seekable", "bytes", "nonseekable"][kind])
            L.append(Lemma(nm, make_gate_lemma(arm, kind), timeout=200 if q else 900,
                           dry=[{"sevs": [], "thr": 0, "boom": False, "exc": 0, "x": 1, "y": 2},
                                {"sevs": [3], "thr": 0, "boom": False, "exc": 0, "x": 1, "y": 2},
                                {"sevs": [], "thr": 0, "boom": True, "exc": 2, "x": 1, "y": 2}],
                           doc={"S": ["sevs: finding severities (len<=%d)" % MAXLEN[0], "thr: accepted severity (all six; hook/context: LIKELY_SAFE)", "boom: analysis raises",
                                      "x: payload byte analysed", "y: payload byte the adversary rewrites the stream to"],
                                "F": ["exception class (7)", "arming=%s" % ["loader.load", "run_hook+pickle.load", "context manager+pickle.load"][arm],
                                      "stream=%s" % ["seekable", "bytes", "non-seekable"][kind]],
                                "bound": "<=%d findings; one-opcode payload K<x>." % MAXLEN[0]}))
    L.append(Lemma("real_gate", real_gate, timeout=200, dry=[{"i": 4, "arm": 0, "kind": 1}, {"i": 11, "arm": 2, "kind": 0}],
                   doc={"F": ["%d concrete pickles (benign / flagged sink globals through every call-making opcode / undecompilable) x 3 armings x 3 stream kinds" % len(REAL)],
                        "bound": "real rule set, real unpickler, inert sink module; audit hook on pickle.find_class"}))
    return L
