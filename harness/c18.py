"""C18 - CLI on stacked pickles: injection is local, decompilation is one valid program.

Real code: cli.main (argument parsing, StackedPickle.load, dump loop, insert_python_eval, decompile loop
with the variable counter threaded across interpreters), Pickled.load/dump, Interpreter."""
import ast
import os
import tempfile
from typing import List

import fickling.fickle as F
from fickling.fickle import Pickled, StackedPickle

from harness.c06 import patched_io
from harness.c10 import run_cli
from vf import rt
from vf.engine import Lemma
from vf.refvm import canon, exec_decompiled, run_vm
from vf.symlib import SymStream, native, pin

PROPERTY = "C18"
RULE = "n, target, flags and pickle family are pinned; every pickle's payload byte is a solver variable so neighbours are compared for all contents."
ASSUMPTIONS = [
    "stdin/stdout of cli.main are pure-Python streams; BytesIO seen by fickling.fickle is the pure-Python stream",
    "'the k-th with the injection applied' is defined as Pickled.insert_python_eval on a fresh parse of the k-th input pickle with the same flags (C08 checks what that injection means)",
    "negative --inject-target values are outside the property's quantifier (targets 0..n)",
    "leaving --inject-target out is taken to mean target 0, the default the CLI documents (inject_from_file compares it with an explicit 0)",
    "decompiled program is executed against inert stubs (vf.refvm.exec_decompiled)",
]

CODE = "print('zqv')"
NF = 5


def _family(fam, x):
    if fam == 0:
        return b"K" + bytes([x]) + b"."
    if fam == 1:
        return b"\x80\x04\x95\x03\x00\x00\x00\x00\x00\x00\x00K" + bytes([x]) + b"."
    if fam == 2:
        return b"]q\x00(K" + bytes([x]) + b"K\x02e."
    if fam == 3:
        return b"czqv_m\nf\n(K" + bytes([x]) + b"tR."
    # a frame that legitimately ends before the rest of the pickle (what the pickler does around >= 64 KiB payloads)
    return b"\x80\x04\x95\x02\x00\x00\x00\x00\x00\x00\x00K" + bytes([x]) + b"\x94."


def make_inject_lemma(n, run_last, replace):
    flags = (["--run-last"] if run_last else []) + (["--replace-result"] if replace else [])

    def lem(k: int, fam: int, x0: int, x1: int, x2: int) -> bool:
        """
        pre: 0 <= k <= 3 and 0 <= fam < 125
        pre: 0 <= x0 < 256 and 0 <= x1 < 256 and 0 <= x2 < 256
        post: _
        """
        if k > n or fam >= NF ** n:
            return True
        k, fam = pin(k, 0, n), pin(fam, 0, NF ** n - 1)
        digits = [(fam // (NF ** i)) % NF for i in range(n)]
        if QUICK[0] and n == 3 and not (len(set(digits)) == 1 or digits in ([3, 2, 1], [2, 1, 0], [1, 2, 3], [1, 1, 0], [0, 1, 1], [1, 0, 1], [4, 1, 4], [0, 4, 3], [4, 4, 1])):
            return True      # quick: 14 of the 125 family triples (all-equal, all-different, equal neighbours); thorough: all
        # an independent family per pickle (base-5 digits of fam): neighbours may be of the same family and size
        parts = [_family(d_, x) for d_, x in zip(digits, [x0, x1, x2][:n])]
        data = b"".join(parts)
        argv = ["fickling", "--inject", CODE, "--inject-target", str(k)] + flags
        with patched_io():
            rc, out, txt, _, _ = run_cli(argv, data)
            rt.reach(k < n)
            if k >= n:
                return rc != 0 and out == b"" and txt == ""
            if rc != 0:
                return False
            sp = StackedPickle.load(SymStream(out))
            if len(sp) != n:
                return False
            got = [p.dumps() for p in sp]
            if b"".join(got) != out:
                return False
            want_k = Pickled.load(SymStream(parts[k]))
            want_k.insert_python_eval(CODE, run_first=not run_last, use_output_as_unpickle_result=replace)
            for i in range(n):
                if i == k:
                    if got[i] != want_k.dumps():
                        return False
                elif got[i] != parts[i]:
                    return False
        return True

    lem.__name__ = lem.__qualname__ = "inject_n%d%s%s" % (n, "_last" if run_last else "", "_replace" if replace else "")
    return lem


def inject_from_file(n: int, k: int, fl: int, x: int) -> bool:
    """
    pre: 1 <= n <= 3 and 0 <= k <= 3 and 0 <= fl < 4 and 0 <= x < 4
    post: _
    """
    n, k, fl, x = pin(n, 1, 3), pin(k, 0, 3), pin(fl, 0, 3), pin(x, 0, 3)
    if k > n:
        return True
    with native():
        parts = [_family((x + i) % 4, 10 * x + i) for i in range(n)]
        fd, path = tempfile.mkstemp(prefix="vf_c18_", suffix=".pkl")
        try:
            os.write(fd, b"".join(parts))
            os.close(fd)
            flags = (["--run-last"] if fl & 1 else []) + (["--replace-result"] if fl & 2 else [])
            rc, out, txt, _, _ = run_cli(["fickling", path, "--inject", CODE, "--inject-target", str(k)] + flags, b"")
            if k == 0:
                # the documented default target is the first pickle: leaving the option out means target 0
                rc_d, out_d, _, _, _ = run_cli(["fickling", path, "--inject", CODE] + flags, b"")
                if (rc_d, out_d) != (rc, out):
                    return False
            with open(path, "rb") as f:
                untouched = f.read() == b"".join(parts)
        finally:
            os.unlink(path)
        rt.reach(k < n)
        if not untouched:
            return False
        if k >= n:
            return rc != 0 and out == b""
        sp = StackedPickle.load(out)
        want = Pickled.load(parts[k])
        want.insert_python_eval(CODE, run_first=not (fl & 1), use_output_as_unpickle_result=bool(fl & 2))
        return rc == 0 and len(sp) == n and all(
            (p.dumps() == (want.dumps() if i == k else parts[i])) for i, p in enumerate(sp))


def pipe(n: int, k: int, fl: int, fam: int) -> bool:
    """
    pre: 2 <= n <= 3 and 0 <= k <= 3 and 0 <= fl < 5 and 0 <= fam < 125
    post: _
    """
    # the stack arrives on a real pipe: stdin is NOT seekable (fl 4 = plain decompilation instead of injection)
    n, k, fl = pin(n, 2, 3), pin(k, 0, 3), pin(fl, 0, 4)
    if k > n or fam >= NF ** n or (fl == 4 and k != 0):
        return True
    fam = pin(fam, 0, NF ** n - 1)
    with native():
        parts = [_family((fam // (NF ** i)) % NF, 10 + i) for i in range(n)]
        data = b"".join(parts)
        if fl == 4:
            rc, out, txt, _, _ = run_cli(["fickling"], data, seekable=False)
            rt.reach()
            return rc == 0 and all(("result%d = " % i) in txt for i in range(n))
        flags = (["--run-last"] if fl & 1 else []) + (["--replace-result"] if fl & 2 else [])
        rc, out, txt, _, _ = run_cli(["fickling", "--inject", CODE, "--inject-target", str(k)] + flags, data, seekable=False)
        rt.reach(k < n)
        if k >= n:
            return rc != 0 and out == b""
        sp = StackedPickle.load(out)
        want = Pickled.load(parts[k])
        want.insert_python_eval(CODE, run_first=not (fl & 1), use_output_as_unpickle_result=bool(fl & 2))
        return rc == 0 and len(sp) == n and all((p.dumps() == (want.dumps() if i == k else parts[i])) for i, p in enumerate(sp))


def make_decompile_lemma(n, trace):
    def lem(fam: int, x0: int, x1: int, x2: int) -> bool:
        """
        pre: 0 <= fam < 64
        pre: 0 <= x0 < 2 and 0 <= x1 < 2 and 0 <= x2 < 2
        post: _
        """
        if fam >= 4 ** n:
            return True
        fam = pin(fam, 0, 4 ** n - 1)
        xs = [pin(x0, 0, 1), pin(x1, 0, 1), pin(x2, 0, 1)][:n]
        with native():
            parts = [_family((fam // (4 ** i)) % 4, x) for i, x in enumerate(xs)]

            rc, out, txt, _, _ = run_cli(["fickling"] + (["--trace"] if trace else []), b"".join(parts))
            rt.reach()
            if rc != 0:
                return False
            if trace:
                # trace lines are opcode names / tab-indented events; the programs are the remaining blocks
                txt = "\n".join(l for l in txt.split("\n") if not l.startswith("\t") and not l.isupper() and not (l and l.replace("_", "").isupper()))
            try:
                tree = ast.parse(txt)
            except SyntaxError:
                return False
            assigned = []
            for node in ast.walk(tree):
                if isinstance(node, ast.Assign):
                    for t in node.targets:
                        if isinstance(t, ast.Name):
                            assigned.append(t.id)
            if len(assigned) != len(set(assigned)):
                return False          # a variable (or result name) of one pickle reused by another
            if [a for a in assigned if a.startswith("result")] != ["result%d" % i for i in range(n)]:
                return False
            st, env, log = exec_decompiled(txt)
            if st != "ok":
                return False
            for i, b in enumerate(parts):
                vst, v, vlog, _ = run_vm(b)
                if vst != "ok" or canon(env["result%d" % i]) != canon(v):
                    return False
        return True

    lem.__name__ = lem.__qualname__ = "decompile_n%d%s" % (n, "_trace" if trace else "")
    return lem


QUICK = [True]


def lemmas(tier):
    q = tier == "quick"
    QUICK[0] = q
    L = []
    combos = [(n, a, b) for n in (1, 2, 3) for a in (False, True) for b in (False, True)]
    for n, a, b in combos:
        fn = make_inject_lemma(n, a, b)
        L.append(Lemma(fn.__name__, fn, timeout=200 if q else 900,
                       dry=[{"k": 0, "fam": 0, "x0": 1, "x1": 2, "x2": 3}, {"k": n, "fam": 1, "x0": 1, "x1": 2, "x2": 3},
                            {"k": 0, "fam": [1, 6, 31][n - 1], "x0": 1, "x1": 2, "x2": 3}, {"k": n - 1, "fam": [3, 18, 93][n - 1], "x0": 7, "x1": 7, "x2": 7},
                            {"k": 0, "fam": [4, 24, 124][n - 1], "x0": 1, "x1": 2, "x2": 3}, {"k": n - 1, "fam": [4, 4, 4][n - 1], "x0": 1, "x1": 2, "x2": 3}],
                       doc={"S": ["x0..x%d: payload byte of every stacked pickle" % (n - 1)], "F": ["target k in 0..%d (incl. one past the end)" % n, "family of each pickle independently (5^n)", "n=%d run_last=%s replace=%s" % (n, a, b)],
                            "bound": "n<=3 pickles from 4 families"}))
    L.append(Lemma("pipe", pipe, timeout=300 if q else 900, dry=[{"n": 3, "k": 1, "fl": 0, "fam": 6}, {"n": 2, "k": 0, "fl": 4, "fam": 13}],
                   doc={"F": ["stdin is a non-seekable stream (a real pipe): n in 2..3, target, flags or plain decompilation, family of each pickle (5^n); contents pinned"], "bound": "n<=3"}))
    L.append(Lemma("inject_from_file", inject_from_file, timeout=200, dry=[{"n": 3, "k": 1, "fl": 0, "x": 0}],
                   doc={"F": ["n, k, flags, contents pinned; input read from a real temp file; input file unchanged"], "bound": "pinned contents"}))
    for n, tr in [(n, t) for n in (1, 2, 3) for t in (False, True)]:
        fn = make_decompile_lemma(n, tr)
        L.append(Lemma(fn.__name__, fn, timeout=200 if q else 900, dry=[{"fam": 63, "x0": 1, "x1": 0, "x2": 1}, {"fam": 27, "x0": 0, "x1": 0, "x2": 0}],
                       doc={"F": ["family of each pickle independently (4^n, incl. stacks where every pickle binds variables)", "payload values 0..1 (pinned; unparse renders ints digit by digit)", "n=%d trace=%s" % (n, tr)],
                            "bound": "n<=3"}))
    return L
