"""C10 - all faces of the safety check agree on the same per-pickle severity.

Real code executed symbolically: Severity.__lt__/__gt__/__eq__/__ge__/__le__, AnalysisContext.analyze,
Analyzer.analyze, AnalysisResults.severity/to_dict/detailed_results/to_string, check_safety,
is_likely_safe, loader.load, cli.main(--check-safety), StackedPickle.load, Pickled.load.
Stub: the rule set (one rule yielding an arbitrary list of severities chosen by the solver)."""
import io
import json
import os
import sys
import tempfile
from typing import List

import fickling.analysis as A
import fickling.cli as cli
import fickling.loader as loader
from fickling.analysis import Analysis, AnalysisResult, Analyzer, Severity
from fickling.exception import UnsafeFileError
from fickling.fickle import Pickled

from vf import rt
from vf.engine import Lemma
from vf.symlib import Collector, SymStream, native, pin, pure_struct

PROPERTY = "C10"
RULE = ("Severity pairs (a,b) and finding lists are solver variables; the rule set is a stub yielding the "
        "solver-chosen severities, every face is the real code.")
ASSUMPTIONS = [
    "an analysis may report any finite list of non-LIKELY_SAFE severities (stub rule); list length bounded per lemma",
    "documented ranking = declaration order LIKELY_SAFE < POSSIBLY_UNSAFE < SUSPICIOUS < LIKELY_UNSAFE < LIKELY_OVERTLY_MALICIOUS < OVERTLY_MALICIOUS (README)",
    "CLI face: stdin/stdout replaced by pure-Python streams; JSON report captured by replacing `open` as seen by fickling.analysis",
]

NAMES = ["LIKELY_SAFE", "POSSIBLY_UNSAFE", "SUSPICIOUS", "LIKELY_UNSAFE", "LIKELY_OVERTLY_MALICIOUS",
         "OVERTLY_MALICIOUS"]


def order():
    # looked up by *name* so that re-ordering or re-valuing the enum in /repo is visible
    return [getattr(Severity, n) for n in NAMES]


def severity_order(a: int, b: int) -> bool:
    """
    pre: 0 <= a < 6 and 0 <= b < 6
    post: _
    """
    o = order()
    x, y = o[a], o[b]
    rt.reach()
    return ((x < y) == (a < b) and (x <= y) == (a <= b) and (x > y) == (a > b) and (x >= y) == (a >= b)
            and (x == y) == (a == b) and (x != y) == (a != b))


def _stub_analyzer(sev_lists):
    """Analyzer whose single rule yields, for the i-th analysed pickle, the i-th severity list"""
    o = order()
    state = {"i": 0}

    class Rule:
        def analyze(self, context):
            i = state["i"]
            state["i"] += 1
            for j, s in enumerate(sev_lists[i] if i < len(sev_lists) else []):
                yield AnalysisResult(o[s], "finding %d" % j, "StubRule", trigger="t%d" % j)

    return Analyzer([Rule()])


class _Patched:
    """install a stub default analyzer; restore on exit"""

    def __init__(self, sev_lists):
        self.sev_lists = sev_lists

    def __enter__(self):
        self.saved = Analyzer._DEFAULT_INSTANCE
        Analyzer._DEFAULT_INSTANCE = _stub_analyzer(self.sev_lists)
        return self

    def __exit__(self, *a):
        Analyzer._DEFAULT_INSTANCE = self.saved


def _verdict(sevs):
    return max(sevs, default=0)


def faces_library(sevs: List[int], x: int, maxlen: int) -> bool:
    """
    pre: len(sevs) <= 3 and all(1 <= s <= 5 for s in sevs)
    pre: 0 <= x < 256 and 0 <= maxlen <= 3
    post: _
    """
    if len(sevs) > TIER_MAXLEN[0]:
        return True
    o = order()
    data = b"K" + bytes([x]) + b"."
    v = _verdict(sevs)
    ok = True
    with pure_struct():
        with _Patched([sevs]):
            res = A.check_safety(Pickled.load(SymStream(data)))
        ok = ok and res.severity is o[v]
        ok = ok and (res.severity == Severity.LIKELY_SAFE) == (len(sevs) == 0)
        d = res.to_dict()
        ok = ok and d["severity"] == NAMES[v]
        ok = ok and len(res.results) == len(sevs)
        ok = ok and all(isinstance(r.severity, Severity) for r in res.results)
        # checked loader, default threshold
        with _Patched([sevs]):
            try:
                got = loader.load(SymStream(data))
                raised = None
            except UnsafeFileError as e:
                raised = e
        rt.reach(len(sevs) > 0)
        if v == 0:
            ok = ok and raised is None and got == x
        else:
            ok = ok and raised is not None and raised.info["severity"] == NAMES[v]
    return ok


def faces_likely_safe(sevs: List[int]) -> bool:
    """
    pre: len(sevs) <= 2 and all(1 <= s <= 5 for s in sevs)
    post: _
    """
    path = _BENIGN[0]
    with _Patched([sevs]):
        r = A.is_likely_safe(path)
    rt.reach(len(sevs) > 0)
    return r is (len(sevs) == 0)


_BENIGN = [None]
TIER_MAXLEN = [2]


def _benign_file():
    if _BENIGN[0] is None or not os.path.exists(_BENIGN[0]):
        fd, p = tempfile.mkstemp(prefix="vf_c10_", suffix=".pkl")
        os.write(fd, b"K\x01.")
        os.close(fd)
        _BENIGN[0] = p
        import atexit
        atexit.register(lambda: os.path.exists(p) and os.unlink(p))
    return _BENIGN[0]


class _Std:
    def __init__(self, buffer):
        self.buffer = buffer

    def isatty(self):
        return False

    def write(self, s):
        return len(s)

    def flush(self):
        pass


class _TextSink(io.StringIO):
    buffer = None


def run_cli(argv, stdin_bytes, seekable=True):
    """cli.main with stdin/stdout/stderr replaced and the JSON report captured. Returns
    (rc, stdout_bytes, stdout_text, json_text)"""
    out_bin = Collector()
    out_txt = []
    json_chunks = []

    class Out:
        buffer = out_bin

        def write(self, s):
            out_txt.append(s)
            return len(s)

        def flush(self):
            pass

        def isatty(self):
            return False

    class Err(Out):
        buffer = None

        def write(self, s):
            return len(s)

    class JsonFile:
        def __enter__(self):
            return self

        def __exit__(self, *a):
            return False

        def write(self, s):
            json_chunks.append(s)
            return len(s)

    opened = []

    def fake_open(path, mode="r", *a, **k):
        opened.append((path, mode))
        return JsonFile()

    saved = (sys.stdin, sys.stdout, sys.stderr)
    sys.stdin, sys.stdout, sys.stderr = _Std(SymStream(stdin_bytes, seekable=seekable)), Out(), Err()
    A.open = fake_open
    try:
        try:
            rc = cli.main(argv)
        except SystemExit as e:
            rc = ("exit", e.code)
    finally:
        sys.stdin, sys.stdout, sys.stderr = saved
        del A.open
    return rc, out_bin.getvalue(), "".join(out_txt), "".join(json_chunks), opened


def _split_json_docs(text):
    dec = json.JSONDecoder()
    docs = []
    i = 0
    while i < len(text):
        while i < len(text) and text[i].isspace():
            i += 1
        if i >= len(text):
            break
        d, j = dec.raw_decode(text, i)
        docs.append(d)
        i = j
    return docs


def make_cli_lemma(k, flags):
    argv = ["fickling", "--check-safety"] + flags

    def lem(s0: List[int], s1: List[int], s2: List[int], x0: int, x1: int, x2: int) -> bool:
        """
        pre: len(s0) <= 1 and len(s1) <= 1 and len(s2) <= 1
        pre: all(1 <= s <= 5 for s in s0) and all(1 <= s <= 5 for s in s1) and all(1 <= s <= 5 for s in s2)
        pre: 0 <= x0 < 256 and 0 <= x1 < 256 and 0 <= x2 < 256
        post: _
        """
        lists = [s0, s1, s2][:k]
        xs = [x0, x1, x2][:k]
        if any(len(l) for l in [s0, s1, s2][k:]):
            return True
        data = b""
        for x in xs:
            data += b"K" + bytes([x]) + b"."
        with pure_struct():
            with _Patched(lists):
                rc, _, txt, js, opened = run_cli(argv, data)
        verdicts = [_verdict(l) for l in lists]
        rt.reach(any(verdicts))
        ok = (rc == 0) == all(v == 0 for v in verdicts) and rc in (0, 1)
        docs = _split_json_docs(js)
        ok = ok and len(docs) == k and [d["severity"] for d in docs] == [NAMES[v] for v in verdicts]
        want = "out.json" if "--json-output" in flags else cli.DEFAULT_JSON_OUTPUT_FILE
        ok = ok and all(p == want for p, m in opened)
        return ok

    nm = "cli_check_safety_k%d%s" % (k, "".join("_" + f.strip("-").replace("-", "") for f in flags if f.startswith("--")))
    lem.__name__ = lem.__qualname__ = nm
    return nm, lem


def real_rules_faces(fam: int, k: int, pr: int) -> bool:
    """
    pre: 0 <= fam < 16 and 1 <= k <= 3 and 0 <= pr < 2
    post: _
    """
    # real rule set on concrete benign / flagged families: every face is a function of one severity
    fam, k, pr = pin(fam, 0, 15), pin(k, 1, 3), pin(pr, 0, 1)
    with native():
        return _real_rules_native(fam, k, pr)


def _real_rules_native(fam, k, pr):
    fams = [b"K\x01.", b"]q\x00(K\x01K\x02e.", b"cos\nsystem\n(S'id'\ntR.", b"czqv_pkg\nf\n.",
            b"c__builtin__\neval\n(S'1'\ntR."]
    stack = []
    n = fam
    for i in range(k):
        stack.append(fams[n % len(fams)] if i == 0 else fams[(n // 5 + i) % len(fams)])
    data = b"".join(stack)
    sevs = [A.check_safety(Pickled.load(s)).severity for s in stack]
    argv = ["fickling", "--check-safety"] + (["--print-results"] if pr else [])
    rc, _, txt, js, opened = run_cli(argv, data)
    docs = _split_json_docs(js)
    rt.reach(any(s != Severity.LIKELY_SAFE for s in sevs))
    ok = (rc == 0) == all(s == Severity.LIKELY_SAFE for s in sevs)
    ok = ok and [d["severity"] for d in docs] == [s.name for s in sevs]
    for s, b in zip(sevs, stack):
        try:
            loader_raised = False
            _no_exec_loads(b)
        except UnsafeFileError as e:
            loader_raised = True
            ok = ok and e.info["severity"] == s.name
        ok = ok and loader_raised == (s != Severity.LIKELY_SAFE)
    return ok


def _no_exec_loads(b):
    import pickle
    saved = pickle.loads
    pickle.loads = lambda data, *a, **k: ("TOKEN", data)
    try:
        return loader.load(b)
    finally:
        pickle.loads = saved


def lemmas(tier):
    _benign_file()
    TIER_MAXLEN[0] = 2 if tier == 'quick' else 3
    L = [
        Lemma("severity_order", severity_order, timeout=60, dry=[{"a": 0, "b": 5}, {"a": 3, "b": 3}],
              doc={"S": ["a,b: index of a Severity member (all 36 ordered pairs)"], "bound": "none: the domain is finite and fully covered",
                   "functions": ["Severity.__lt__/__gt__/__eq__/__ge__/__le__ and the inherited __ne__"]}),
        Lemma("faces_library", faces_library, timeout=150 if tier == "quick" else 600,
              dry=[{"sevs": [], "x": 7, "maxlen": 0}, {"sevs": [3, 5], "x": 0, "maxlen": 0}],
              doc={"S": ["sevs: list of finding severities, len<=%d" % TIER_MAXLEN[0], "x: payload byte of the analysed pickle (all 256 values per path)"],
                   "faces": ["check_safety().severity", "to_dict()['severity']", "loader.load raises / returns", "UnsafeFileError.info"],
                   "bound": "at most %d findings per pickle" % TIER_MAXLEN[0]}),
        Lemma("faces_likely_safe", faces_likely_safe, timeout=120, dry=[{"sevs": []}, {"sevs": [1]}],
              doc={"S": ["sevs: len<=2"], "faces": ["is_likely_safe(path) on a real temp file"], "bound": "at most 2 findings"}),
        Lemma("real_rules_faces", real_rules_faces, timeout=200, dry=[{"fam": 2, "k": 2, "pr": 1}],
              doc={"F": ["fam x k x print-results: 16x3x2 stacks drawn from benign/flagged families, real rule set"],
                   "faces": ["cli rc", "json docs", "loader.load", "check_safety"], "bound": "5 pickle families, stacks <= 3"}),
    ]
    ks = [1, 2] if tier == "quick" else [1, 2, 3]
    flagsets = [[], ["--print-results"], ["--json-output", "out.json"], ["--print-results", "--json-output", "out.json"]]
    if tier == "quick":
        combos = [(1, flagsets[0]), (2, flagsets[1]), (2, flagsets[2]), (1, flagsets[3])]
    else:
        combos = [(k, f) for k in ks for f in flagsets]
    for k, fl in combos:
        nm, fn = make_cli_lemma(k, fl)
        L.append(Lemma(nm, fn, timeout=200 if tier == "quick" else 900,
                       dry=[{"s0": [4], "s1": [], "s2": [], "x0": 1, "x1": 2, "x2": 3}],
                       doc={"S": ["per-pickle finding list (len<=1, 6 choices each)", "payload byte of each stacked pickle"],
                            "F": ["k=%d" % k, "flags=%s" % " ".join(fl)],
                            "faces": ["cli.main exit status", "i-th JSON document's severity", "report path"],
                            "bound": "k<=%d stacked pickles, <=1 finding each" % k}))
    return L
