"""C05 - the decompiled program rebuilds the same value as the real pickle VM.

Two lemma families: (1) the lockstep family of harness/c03.py with the value oracle (canonical result of
the executed decompiled source == canonical result of the reference VM, and the source must execute);
(2) plain data: objects from a shape grammar pickled by CPython's own pickler at protocols 0-5 must
decompile, and the executed result must equal the original object in value and type."""
import ast
import pickle
from typing import List

from fickling.fickle import Pickled

import harness.c03 as c03
from vf import rt
from vf.engine import Lemma
from vf.symlib import native, pin

PROPERTY = "C05"
RULE = c03.RULE + " Plain data: shape x protocol solver-partitioned, leaves from boundary samples."
ASSUMPTIONS = list(c03.ASSUMPTIONS) + [
    "plain data: the decompiled source runs with real container literals and a whitelisted __import__ (_codecs, builtins, copyreg: what the stock pickler itself emits for bytes/bytearray/sets at old protocols); leaves are boundary samples (ints around 2^8/2^16/2^31/2^63, text classes, bytes), not symbolic, because unparse renders constants digit by digit",
    "plain data at a protocol whose encoding needs an opcode fickling does not implement (FLOAT at protocol 0, BYTEARRAY8 at protocol 5) may be refused; a refusal is not a wrong value",
]

INTS = [0, 1, -1, 255, 256, 65535, 65536, 2 ** 31 - 1, 2 ** 31, -2 ** 31, 2 ** 63, -2 ** 63 - 1, 10 ** 30]
STRS = ["", "a", "it's", "\n", "\\", "\xe9", "€", "\U0001f600", "x" * 300]
BYTS = [b"", b"b", b"\x00\xff", b"'", b"y" * 300]
FLTS = [0.0, -0.0, 1.5, float("inf"), 1e308]


def shapes(a, b, s, t, f):
    d = {s: a}
    l = [a, b]
    return [a, s, t, f, None, True, (), [], {}, set(), frozenset(), (a,), (a, b), (a, b, s), (a, b, s, t), [a], l, [l, l], {s: l}, d, [d, d],
            {a: {b: s}}, {a, b}, frozenset({a}), [(a, [b, {s: (t,)}])], ((), [], {}), [[[]]], {s: None, "z": [True, False]},
            [a, s, a, s], (l, l), {"k": d, "j": d}, [{a}, {a}], [frozenset({a, b})], bytearray(t),
            [BIG_LIST, BIG_LIST], {"x": BIG_LIST, "y": [BIG_LIST, a]}, [BIG_DICT, BIG_DICT], [BIG_SET, BIG_SET], (BIG_LIST, s, BIG_DICT)]


# containers beyond the pickler's batch size (1000): later batches arrive through further APPENDS / SETITEMS / ADDITEMS
BIG_LIST = list(range(1001))
BIG_DICT = {i: i for i in range(1001)}
BIG_SET = set(range(1001))


NSHAPES = len(shapes(0, 1, "s", b"t", 1.5))


def classify(obj, proto):
    def has(o, tp):
        if isinstance(o, tp):
            return True
        if isinstance(o, (list, tuple, set, frozenset)):
            return any(has(x, tp) for x in o)
        if isinstance(o, dict):
            return any(has(k, tp) or has(v, tp) for k, v in o.items())
        return False
    if has(obj, frozenset):
        return "frozenset"

    return None


def _allowed_import(name, globals=None, locals=None, fromlist=(), level=0):
    if name in ("_codecs", "builtins", "__builtin__", "copyreg", "copy_reg"):
        return __import__(name, globals, locals, fromlist, level)
    raise ImportError("plain data must not import %r" % name)


def make_plain(proto):
    def lem(sh: int, ai: int, si: int) -> bool:
        """
        pre: 0 <= sh < 48 and 0 <= ai < 13 and 0 <= si < 9
        post: _
        """
        if sh >= NSHAPES:
            return True
        sh, ai, si = pin(sh, 0, NSHAPES - 1), pin(ai, 0, len(INTS) - 1), pin(si, 0, len(STRS) - 1)
        with native():
            a, b = INTS[ai], INTS[(ai + 3) % len(INTS)]
            s, t, f = STRS[si], BYTS[si % len(BYTS)], FLTS[si % len(FLTS)]
            obj = shapes(a, b, s, t, f)[sh]
            key = classify(obj, proto)
            if rt.skip("plain/%s" % key):
                return True
            data = pickle.dumps(obj, proto)
            try:
                src = ast.unparse(Pickled.load(data).ast)
            except NotImplementedError:
                return True          # unsupported opcode at this protocol: refusal
            rt.reach()
            env = {"__builtins__": {"__import__": _allowed_import, "set": set, "frozenset": frozenset, "bytearray": bytearray, "bytes": bytes}}
            exec(compile(src, "<decompiled>", "exec"), env)     # a program that does not run is a violation (raises)
            got = env["result"]
            return _same(got, obj)

    lem.__name__ = lem.__qualname__ = "plain_p%d" % proto
    return lem


def _same(a, b):
    if type(a) is not type(b):
        return False
    if isinstance(a, float):
        return repr(a) == repr(b)
    if isinstance(a, (list, tuple)):
        return len(a) == len(b) and all(_same(x, y) for x, y in zip(a, b))
    if isinstance(a, dict):
        return list(a.keys()) == list(b.keys()) and all(_same(a[k], b[k]) for k in a) and all(type(x) is type(y) for x, y in zip(a, b))
    return a == b


def lemmas(tier):
    q = tier == "quick"
    L = c03.lemmas(tier, oracle="C05")
    for proto in range(6):
        L.append(Lemma("plain_p%d" % proto, make_plain(proto), timeout=300 if q else 1200, dry=[{"sh": 20, "ai": 3, "si": 2}, {"sh": 17, "ai": 0, "si": 0}],
                       doc={"F": ["%d shapes (scalars, containers, nesting, shared sub-objects, sets, bytearray)" % NSHAPES, "int leaves from %d boundary samples" % len(INTS),
                                  "text/bytes/float leaves from samples", "protocol %d, pickled by CPython's pickler" % proto],
                            "bound": "listed shapes and leaves"}))
    return L
