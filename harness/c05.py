"""C05 - the decompiled program rebuilds the same value as the real pickle VM.

Two lemma families: (1) the lockstep family of harness/c03.py with the value oracle (canonical result of
the executed decompiled source == canonical result of the reference VM, and the source must execute);
(2) plain data: objects from a shape grammar pickled by CPython's own pickler at protocols 0-5 must
decompile, and the executed result must equal the original object in value and type."""
import ast
import pickle
from typing import List

from fickling.fickle import Pickled

import harness.c03 as c03
from vf import rt
from vf.engine import Lemma
from vf.symlib import native, pin

PROPERTY = "C05"
RULE = c03.RULE + " Plain data: shape x protocol solver-partitioned, leaves from boundary samples."
ASSUMPTIONS = list(c03.ASSUMPTIONS) + [
    "plain data: the decompiled source runs with real container literals and a whitelisted __import__ (_codecs, builtins, copyreg: what the stock pickler itself emits for bytes/bytearray/sets at old protocols); leaves are boundary samples (ints around 2^8/2^16/2^31/2^63, text classes, bytes), not symbolic, because unparse renders constants digit by digit",
    "plain data at a protocol whose encoding needs an opcode fickling does not implement (FLOAT at protocol 0, BYTEARRAY8 at protocol 5) may be refused; a refusal is not a wrong value",
]

INTS = [0, 1, -1, 255, 256, 65535, 65536, 2 ** 31 - 1, 2 ** 31, -2 ** 31, 2 ** 63, -2 ** 63 - 1, 10 ** 30]
STRS = ["", "a", "it's", "\n", "\\", "\xe9", "€", "\U0001f600", "x" * 300]
BYTS = [b"", b"b", b"\x00\xff", b"'", b"y" * 300]
FLTS = [0.0, -0.0, 1.5, float("inf"), 1e308]


def shapes(a, b, s, t, f):
    d = {s: a}
    l = [a, b]
    return [a, s, t, f, None, True, (), [], {}, set(), frozenset(), (a,), (a, b), (a, b, s), (a, b, s, t), [a], l, [l, l], {s: l}, d, [d, d],
            {a: {b: s}}, {a, b}, frozenset({a}), [(a, [b, {s: (t,)}])], ((), [], {}), [[[]]], {s: None, "z": [True, False]},
            [a, s, a, s], (l, l), {"k": d, "j": d}, [{a}, {a}], [frozenset({a, b})], bytearray(t),
            [a, True, b, False], [True, a], {s: False, "n": a}, [0.0, -0.0, f], [-0.0, 0.0], (f, -f),
            [BIG_LIST, BIG_LIST], {"x": BIG_LIST, "y": [BIG_LIST, a]}, [BIG_DICT, BIG_DICT], [BIG_SET, BIG_SET], (BIG_LIST, s, BIG_DICT)]


# containers beyond the pickler's batch size (1000): later batches arrive through further APPENDS / SETITEMS / ADDITEMS
BIG_LIST = list(range(1001))
BIG_DICT = {i: i for i in range(1001)}
BIG_SET = set(range(1001))


NSHAPES = len(shapes(0, 1, "s", b"t", 1.5))


def classify(obj, proto):
    def has(o, tp):
        if isinstance(o, tp):
            return True
        if isinstance(o, (list, tuple, set, frozenset)):
            return any(has(x, tp) for x in o)
        if isinstance(o, dict):
            return any(has(k, tp) or has(v, tp) for k, v in o.items())
        return False
    if has(obj, frozenset):
        return "frozenset"

    return None


def _allowed_import(name, globals=None, locals=None, fromlist=(), level=0):
    if name in ("_codecs", "builtins", "__builtin__", "copyreg", "copy_reg"):
        return __import__(name, globals, locals, fromlist, level)
    raise ImportError("plain data must not import %r" % name)


def make_plain(proto):
    def lem(sh: int) -> bool:
        """
        pre: 0 <= sh < 64
        post: _
        """
        if sh >= NSHAPES:
            return True
        sh = pin(sh, 0, NSHAPES - 1)
        with native():
            # leaves are enumerated inside the cell (big shapes ignore most of them: one pass is enough there)
            big = sh >= NSHAPES - 5
            for ai in (range(len(INTS)) if not big else (1,)):
                for si in (range(len(STRS)) if not big else (1,)):
                    what = _plain_one(proto, sh, ai, si)
                    if what is not None:
                        LAST[0] = what
                        return False
            return True

    lem.__name__ = lem.__qualname__ = "plain_p%d" % proto
    return lem


LAST = [None]


def make_plain_replay(proto):
    lem = make_plain(proto)

    def replay(sh):
        LAST[0] = None
        try:
            ok = lem(sh)
        except Exception as e:
            return "raised %s: %s" % (type(e).__name__, str(e)[:200])
        return None if ok else (LAST[0] or "lemma returns False")
    return replay


def _plain_one(proto, sh, ai, si):
    a, b = INTS[ai], INTS[(ai + 3) % len(INTS)]
    s, t, f = STRS[si], BYTS[si % len(BYTS)], FLTS[si % len(FLTS)]
    obj = shapes(a, b, s, t, f)[sh]
    key = classify(obj, proto)
    if rt.skip("plain/%s" % key):
        return None
    data = pickle.dumps(obj, proto)
    try:
        src = ast.unparse(Pickled.load(data).ast)
    except NotImplementedError:
        return None          # unsupported opcode at this protocol: refusal
    rt.reach()
    env = {"__builtins__": {"__import__": _allowed_import, "set": set, "frozenset": frozenset, "bytearray": bytearray, "bytes": bytes}}
    try:
        exec(compile(src, "<decompiled>", "exec"), env)
    except Exception as e:
        return "decompiled program does not run (%s: %s) for %r at protocol %d" % (type(e).__name__, str(e)[:80], str(obj)[:60], proto)
    if not _same(env["result"], obj):
        return "decompiled program rebuilds %r, expected %r (protocol %d)" % (str(env["result"])[:80], str(obj)[:80], proto)
    return None


def _same(a, b):
    if type(a) is not type(b):
        return False
    if isinstance(a, float):
        return repr(a) == repr(b)
    if isinstance(a, (list, tuple)):
        return len(a) == len(b) and all(_same(x, y) for x, y in zip(a, b))
    if isinstance(a, dict):
        return list(a.keys()) == list(b.keys()) and all(_same(a[k], b[k]) for k in a) and all(type(x) is type(y) for x, y in zip(a, b))
    return a == b


def lemmas(tier):
    q = tier == "quick"
    L = c03.lemmas(tier, oracle="C05")
    for proto in range(6):
        L.append(Lemma("plain_p%d" % proto, make_plain(proto), timeout=300 if q else 1200, dry=[{"sh": 20}, {"sh": 17}], replay=make_plain_replay(proto),
                       doc={"F": ["solver-partitioned: %d shapes (scalars, containers, nesting, shared sub-objects, sets, bytearray, shared containers of 1001 items)" % NSHAPES,
                                  "enumerated per cell: int leaves from %d boundary samples x text/bytes/float leaves from %d samples" % (len(INTS), len(STRS)), "protocol %d, pickled by CPython's pickler" % proto],
                            "bound": "listed shapes and leaves"}))
    return L
