"""C09 - stepping and tracing mirror the real pickle VM opcode by opcode.

Inductive step lemma per opcode: from an arbitrary related pre-state (hidden stack prefix of any
depth, window of <=W explicit slots with lazily chosen kinds, hidden memo of any size with oracle
membership) run ONE real Interpreter.step() and ONE real pickle._Unpickler.load_* and compare
window mark positions and memo key writes.  Trace passivity: Trace.run vs untraced to_ast."""
import ast
import contextlib
import io
import pickle
import pickletools
from typing import List

import fickling.fickle as F
import fickling.tracing as tracing
from fickling.fickle import Interpreter, MarkObject, Pickled

from vf import rt
from vf.engine import Lemma
from vf.refvm import (ACTIVE_KINDS, KIND_NAMES, NKINDS, LoggingVM, SlotList, _StubCls, adump, build_states,
                      make_world, set_active_kinds, vm_window_shape)
from vf.symlib import HMemo, MemoOracle, SymStream, native, pin, pure_struct

PROPERTY = "C09"
RULE = ("One inductive step lemma per opcode class in fickling.fickle.OPCODES_BY_NAME: pre-state = hidden "
        "prefix (symbolic depth) + window slots (mark flags and lazily pinned kinds) + hidden memo (symbolic size, "
        "oracle membership); both real single-step implementations run; post = same window mark layout and same memo key writes.")
ASSUMPTIONS = [
    "Stack truthiness and len() inside fickling.fickle answer with the symbolic length of the hidden-prefix stack (stubs: Stack.__bool__ = bool(_stack); fickle.len = symbolic-aware len) so that the C-level len protocol does not enumerate depths",
    "reference semantics = CPython's pure-Python pickle._Unpickler.load_* methods, driven one opcode at a time",
    "window slots pair a fickling AST node kind with the corresponding Python value kind from a fixed table of %d pairs (vf/refvm.py KIND_NAMES), incl. 3 cross pairs (variable vs container)" % NKINDS,
    "opcodes whose mark scan or operand access reaches below the W-slot window are outside the bound (counted as outside_bound_paths)",
    "premise of the property: both implementations accept the step; rejection by either side is not compared",
    "text-encoded opcode arguments (PUT/GET/INT/LONG/STRING/UNICODE/GLOBAL/INST) are samples; binary arguments are symbolic",
    "globals resolve to inert stub classes on the VM side",
]

OPI = {o.name: o for o in pickletools.opcodes}
W = [3]

TEXT_ARG = {
    "INT": b"5\n", "LONG": b"5L\n", "STRING": b"'s'\n", "UNICODE": b"u\n", "GLOBAL": b"m\nf\n", "INST": b"m\nC\n",
    "PUT": None, "GET": None, "PERSID": b"p\n", "FLOAT": b"1.5\n",
}
TEXT_MEMO_KEYS = [0, 1, 2, 7, 321987]


def arg_bytes(name, a, payload):
    """bytes of the opcode's argument for symbolic int `a` / payload"""
    info = OPI[name]
    if info.arg is None:
        return b""
    an = info.arg.name
    if name in ("PUT", "GET"):
        k = TEXT_MEMO_KEYS[pin(a, 0, len(TEXT_MEMO_KEYS) - 1)]
        return str(k).encode() + b"\n"
    if name in TEXT_ARG:
        return TEXT_ARG[name]
    if an == "uint1":
        return bytes([a])
    if an == "uint2":
        return a.to_bytes(2, "little")
    if an == "int4":
        return a.to_bytes(4, "little", signed=True)
    if an == "uint4":
        return a.to_bytes(4, "little")
    if an == "uint8":
        return (0).to_bytes(8, "little")
    if an == "float8":
        return b"\x3f\xf8" + b"\x00" * 6
    if an in ("string1", "bytes1", "unicodestring1", "long1"):
        return bytes([len(payload)]) + payload
    if an in ("string4", "bytes4", "unicodestring4", "long4"):
        return len(payload).to_bytes(4, "little") + payload
    if an in ("bytes8", "unicodestring8", "bytearray8"):
        return len(payload).to_bytes(8, "little") + payload
    raise NotImplementedError(an)


def arg_range(name):
    info = OPI[name]
    if name in ("PUT", "GET"):
        return 0, len(TEXT_MEMO_KEYS) - 1
    if info.arg is None or name in TEXT_ARG:
        return 0, 0
    if name == "PROTO":
        return 0, 6      # 6 = first unsupported version (pickle.py formats larger values into its error text)
    return {"uint1": (0, 255), "uint2": (0, 65535), "int4": (-2 ** 31, 2 ** 31 - 1), "uint4": (0, 2 ** 32 - 1)}.get(
        info.arg.name, (0, 0))


def payload_for(name):
    an = OPI[name].arg.name if OPI[name].arg else ""
    if an.startswith("unicodestring") or an.startswith("string"):
        return b"t"
    return None   # symbolic


class Absent(LookupError):
    """raised instead of KeyError by the VM-side memo view: pickle.py formats the missing key into an
    UnpicklingError message, which would realise the symbolic key digit by digit"""


class _VMemo(HMemo):
    def __getitem__(self, k):
        try:
            return HMemo.__getitem__(self, k)
        except KeyError:
            raise Absent()


def _sym_len(x):
    """len() as seen by fickling.fickle while a step lemma runs: hidden-prefix containers answer with
    their symbolic length instead of being realised by the C-level len protocol"""
    if isinstance(x, F.Stack) and isinstance(x._stack, SlotList):
        return x._stack.h + builtins_len(x._stack.tail)
    if isinstance(x, (SlotList, HMemo)):
        return x.__len__()
    return builtins_len(x)


builtins_len = len


class _stack_stubs:
    """Stack.__bool__ (same truth value as __len__() != 0) and a symbolic-aware len for fickle.py"""

    def __enter__(self):
        F.Stack.__bool__ = lambda self: bool(self._stack)
        F.len = _sym_len

    def __exit__(self, *a):
        del F.Stack.__bool__
        del F.len


def step_once(name, h, hm, hl, marks, kinds, a, pay, n, answers):
    """returns None (outside bound / premise false) or (f_marks, v_marks, f_writes, v_writes, f_len, v_len)"""
    code = OPI[name].code.encode("latin-1")
    prog = code + arg_bytes(name, a, pay)
    scan = any(s.name == "mark" for s in OPI[name].stack_before)
    if scan and not any(marks):
        # the reference VM must pop its metastack, which is entirely hidden: outside the window bound
        rt.outside()
        return None
    f_stack, v_stack, v_meta = build_states(h, hm, hl, marks, kinds, scan)
    oracle = MemoOracle(n, answers)
    f_memo = HMemo(oracle, lambda k: ast.Name("_memo", ast.Load()))
    v_memo = _VMemo(oracle, lambda k: _StubCls())
    log, stub = make_world()
    try:
        try:
            p = Pickled.load(SymStream(prog + b"."))
            it = Interpreter(p)
            it.stack._stack = f_stack
            it.memory = f_memo
            with _stack_stubs():
                it.step()
            f_ok = True
        except rt.Hidden:
            raise
        except Exception:
            f_ok = False
        vm = LoggingVM(SymStream(prog), log, stub)
        vm.start(stack=v_stack, metastack=v_meta, memo=v_memo)
        try:
            vm.step()
            v_ok = True
        except rt.Hidden:
            raise
        except pickle._Stop:
            v_ok = True
        except Exception:
            v_ok = False
    except rt.Hidden:
        rt.outside()
        return None
    if not (f_ok and v_ok):
        return None
    # pre-state feasibility: keys the oracle declared present must fit in a memo of size n
    present = 0
    for _, p_ in oracle._known:
        if p_:
            present += 1
    if present > n:
        return None
    return (f_stack.marks(), vm_window_shape(vm), f_memo.written_keys(), v_memo.written_keys(),
            len(f_memo) - n, len(v_memo) - n, name != "STOP")


def make_step_lemma(name):
    lo, hi = arg_range(name)
    fixed_pay = payload_for(name)

    def lem(h: int, hm: int, hl: int, marks: List[bool], kinds: List[int], a: int, pay: bytes, n: int,
            ans: List[bool]) -> bool:
        """
        pre: h >= 0 and hm >= 0 and hl >= 0 and n >= 0
        pre: len(marks) <= 3 and len(kinds) == len(marks) and len(ans) == 2 and len(pay) <= 1
        pre: all(0 <= k < 16 for k in kinds)
        post: _
        """
        if len(marks) > W[0] or any(k >= len(ACTIVE_KINDS) for k in kinds):
            return True
        if a < lo or a > hi:
            return True
        if fixed_pay is not None:
            if len(pay) != 0:
                return True
            pay = fixed_pay
        r = step_once(name, h, hm, hl, marks, kinds, a, pay, n, ans)
        if r is None:
            return True
        rt.reach()
        fm, vmk, fw, vw, fl, vl, cmp_stack = r
        if cmp_stack and fm != vmk:
            return False
        return fw == vw and fl == vl

    lem.__name__ = lem.__qualname__ = "step_" + name
    return lem


# ---------------------------------------------------------------------------------------------
# native replay through the public API: build a real program that reaches the pre-state
BUILDERS = {
    0: b"\x8c\x01s", 1: b"K\x07", 2: b"]", 3: b"}", 4: b"}\x8c\x01kK\x01s", 5: b"\x8f", 6: b")", 7: b"K\x01\x85",
    8: b"cm\nf\n", 9: b"cm\nf\n)R", 10: b"cm\nf\n)\x81", 11: b"C\x01b", 12: b"N",
}


def make_replay(name):
    lem = make_step_lemma(name)

    def replay(h, hm, hl, marks, kinds, a, pay, n, ans):
        kinds0 = list(kinds)
        scan = any(s.name == "mark" for s in OPI[name].stack_before)
        last = max([i for i, m in enumerate(marks) if m], default=-1)
        from vf.refvm import SMALL_KINDS
        kinds = [(SMALL_KINDS if (scan and i > last and last >= 0) else ACTIVE_KINDS)[k] if k < len(SMALL_KINDS if (scan and i > last and last >= 0) else ACTIVE_KINDS) else 0
                 for i, k in enumerate(kinds)]
        if any(k not in BUILDERS for k, m in zip(kinds, marks) if not m) or h > 64 or n > 64:
            ok = lem(h, hm, hl, marks, kinds0, a, pay, n, ans)
            return None if ok else "step lemma fails natively on the concrete pre-state (cross-kind slot; no program-level replay)"
        fixed_pay = payload_for(name)
        if fixed_pay is not None:
            pay = fixed_pay
        code = OPI[name].code.encode("latin-1")
        opbytes = code + arg_bytes(name, a, pay)
        # which keys must be present / absent: re-run the lemma natively to learn what was asked
        queried = _queried_keys(name, a, pay, n)
        present = [k for k, want in zip(queried, ans) if want]
        absent = [k for k, want in zip(queried, ans) if not want]
        if len(present) > n:
            return None
        keys = list(present)
        cand = 1000
        while len(keys) < n:
            if cand not in absent and cand not in keys:
                keys.append(cand)
            cand += 1
        prog = b""
        for k in keys:
            prog += b"Np" + str(k).encode() + b"\n0"
        prog += b"N" * h
        for m, k in zip(marks, kinds):
            prog += b"(" if m else BUILDERS[k]
        nprefix = len(list(pickletools.genops(prog + b".")))-1
        full = prog + opbytes
        p = Pickled.load(full + b".")
        it = Interpreter(p)
        log, stub = make_world()
        vm = LoggingVM(io.BytesIO(full + b"."), log, stub).start()
        try:
            for _ in range(nprefix + 1):
                it.step()
        except Exception as e:
            return None
        try:
            for _ in range(nprefix + 1):
                vm.step()
        except pickle._Stop:
            return None
        except Exception:
            return None
        fshape = [isinstance(x, MarkObject) for x in it.stack]
        vshape = vm.shape()
        if name != "STOP" and fshape != vshape:
            return "after %r: fickling stack marks %r != VM %r (program %r)" % (name, fshape, vshape, full)
        if set(it.memory) != set(vm.memo):
            return "after %r: fickling memo keys %r != VM %r (program %r)" % (name, sorted(it.memory), sorted(vm.memo), full)
        return None

    return replay


def _queried_keys(name, a, pay, n):
    if name in ("PUT", "GET"):
        return [TEXT_MEMO_KEYS[a]]
    if name in ("BINPUT", "LONG_BINPUT", "BINGET", "LONG_BINGET"):
        return [a]
    if name == "MEMOIZE":
        return [n]
    return []


# ---------------------------------------------------------------------------------------------
# tracing is passive
TRACE_PROGS = [
    b"K\x01.", b"]q\x00(K\x01K\x02e.", b"(K\x01K\x02l.", b"}q\x00(K\x01K\x02u.", b"(K\x01K\x02d.",
    b"cos\nsystem\n(S'id'\ntR.", b"(cm\nC\nK\x01o.", b"cm\nC\n)\x81}b.", b"\x8f(K\x01K\x02\x90.",
    b"(K\x01K\x02\x91.", b"K\x012K\x02\x86.", b"(K\x011N.", b"\x80\x04\x95\x02\x00\x00\x00\x00\x00\x00\x00N.",
    b"\x8c\x02os\x8c\x06system\x93\x8c\x02id\x85R.", b"]\x94h\x00h\x00\x86.", b"(im\nC\n.", b"NQ.",
    b"K\x01K\x02K\x03\x87q\x05j\x05\x00\x00\x00\x86.", b"Np0\n0g0\n.", b"}\x8c\x01aK\x01s\x8c\x01bK\x02s.",
    # long literals (str and bytes, 65 and 300 characters) nested in a list, a dict and a call
    b"]\x8c\x41" + b"s" * 65 + b"a.", b"}\x8c\x01kX\x2c\x01\x00\x00" + b"t" * 300 + b"s.", b"czqv\nf\n(C\x50" + b"b" * 80 + b"tR.",
    b"]\x8c\x40" + b"s" * 64 + b"a\x8c\x41" + b"u" * 65 + b"a.",
]


def trace_passive(i: int, x: int) -> bool:
    """
    pre: 0 <= i < 32 and 0 <= x < 4
    post: _
    """
    if i >= len(TRACE_PROGS):
        return True
    i = pin(i, 0, len(TRACE_PROGS) - 1)
    prog = TRACE_PROGS[i]
    x = pin(x, 0, 3)
    with native():
        return _trace_passive_native(prog, x)


def _trace_passive_native(prog, x):
    # a BININT1 pushed and popped first so that on_push/on_pop see a value that later disappears
    data = b"K" + bytes([x]) + b"0" + prog
    with pure_struct():
        p1 = Pickled.load(SymStream(data))
        p2 = Pickled.load(SymStream(data))
    names = [op.name for op in p1]
    buf = io.StringIO()
    try:
        plain = Interpreter(p2).to_ast()
    except Exception:
        return True
    seen = []

    class T(tracing.Trace):
        def on_opcode(self, opcode):
            seen.append(opcode.name)       # the tracer's own hook: independent of how the report is laid out
            return super().on_opcode(opcode)

    with contextlib.redirect_stdout(buf):
        traced = T(Interpreter(p1)).run()
    rt.reach()
    if seen != names:
        return False
    import re
    norm = lambda t: re.sub(r"0x[0-9a-f]+", "0x", t)   # FROZENSET nodes print an object address
    return adump(traced) == adump(plain) and norm(ast.unparse(traced)) == norm(ast.unparse(plain)) and p1.dumps() == data


def trace_stepwise(i: int) -> bool:
    """
    pre: 0 <= i < 32
    post: _
    """
    # interpreter state after Trace-driven step j equals plain step j (depth, marks, memo keys)
    if i >= len(TRACE_PROGS):
        return True
    i = pin(i, 0, len(TRACE_PROGS) - 1)
    with native():
        data = TRACE_PROGS[i]
        pa, pb = Pickled.load(data), Pickled.load(data)
        ia, ib = Interpreter(pa), Interpreter(pb)
        states = []

        class T(tracing.Trace):
            def on_opcode(self, opcode):
                states.append(([isinstance(s, MarkObject) for s in self.interpreter.stack], sorted(self.interpreter.memory)))

        with contextlib.redirect_stdout(io.StringIO()):
            try:
                T(ia).run()
            except Exception:
                return True
        plain = []
        while True:
            try:
                ib.step()
            except StopIteration:
                break
            plain.append(([isinstance(s, MarkObject) for s in ib.stack], sorted(ib.memory)))
        rt.reach()
        return states == plain


def natural_lockstep(i: int, proto: int) -> bool:
    """
    pre: 0 <= i < 12 and 0 <= proto <= 5
    post: _
    """
    # whole-program cross-check of the induction: natural pickles, every prefix
    i, proto = pin(i, 0, 11), pin(proto, 0, 5)
    with native():
        import collections
        import datetime
        d = {"a": 1}
        objs = [0, 2 ** 70, "s", b"b", [1, [2, 3]], (1, 2, 3, 4), {"k": [1]}, [d, d], {1, 2}, frozenset({3}),
                collections.OrderedDict(a=1), datetime.date(2020, 1, 2)]
        data = pickle.dumps(objs[i], proto)
        try:
            p = Pickled.load(data)
        except NotImplementedError:
            return True
        it = Interpreter(p)
        log, stub = make_world()
        vm = LoggingVM(io.BytesIO(data), log, stub).start()
        for j in range(len(p)):
            try:
                vm.step()
            except pickle._Stop:
                break
            except Exception:
                return True
            try:
                it.step()
            except Exception:
                return True
            if [isinstance(s, MarkObject) for s in it.stack] != vm.shape() or set(it.memory) != set(vm.memo):
                return False
        rt.reach()
        return True


def memo_gap_lockstep(k: int, m: int, form: int, pre: int) -> bool:
    """
    pre: 0 <= k <= 40 and 0 <= m <= 3 and 0 <= form <= 2 and 0 <= pre <= 2
    post: _
    """
    # memo keys after explicit PUTs that leave a gap (or collide) followed by MEMOIZEs and GETs: `pre` MEMOIZEs,
    # one PUT-family write to key k, `m` more MEMOIZEs, then a BINGET of every key the VM holds (seed C09-5)
    k, m, form, pre = pin(k, 0, 40), pin(m, 0, 3), pin(form, 0, 2), pin(pre, 0, 2)
    with native():
        put = [b"q" + bytes([k]), b"r" + k.to_bytes(4, "little"), b"p" + str(k).encode() + b"\n"][form]
        data = b"]" + b"K\x01\x940" * pre + put + b"K\x07\x940" * m
        keys = sorted(set(range(pre)) | {k} | set(range(pre, pre + m)) | {pre + m, k + 1})
        data += b"".join(b"h" + bytes([x]) + b"0" for x in keys if x in _vm_memo_keys(data)) + b"."
        p = Pickled.load(data)
        it = Interpreter(p)
        log, stub = make_world()
        vm = LoggingVM(io.BytesIO(data), log, stub).start()
        for j in range(len(p)):
            try:
                vm.step()
            except pickle._Stop:
                break
            except Exception:
                return True
            try:
                it.step()
            except Exception:
                return True   # premise: both accept
            if [isinstance(s, MarkObject) for s in it.stack] != vm.shape() or set(it.memory) != set(vm.memo):
                return False
        rt.reach()
        return True


def _vm_memo_keys(prefix):
    log, stub = make_world()
    vm = LoggingVM(io.BytesIO(prefix + b"."), log, stub).start()
    while True:
        try:
            vm.step()
        except pickle._Stop:
            break
    return set(vm.memo)


def lemmas(tier):
    q = tier == "quick"
    W[0] = 3
    # quick: 8 of the 16 kind pairs (one per isinstance branch of fickle.py); thorough: all 16 incl. cross pairs
    set_active_kinds([0, 2, 3, 4, 5, 7, 8, 9] if q else range(NKINDS))
    L = []
    for name in sorted(F.OPCODES_BY_NAME):
        cls = F.OPCODES_BY_NAME[name]
        if cls.run is F.Opcode.run:
            continue   # PERSID: fickling refuses at run time (NotImplementedError); nothing to compare
        lo, hi = arg_range(name)
        L.append(Lemma("step_" + name, make_step_lemma(name), timeout=150 if q else 900, replay=make_replay(name),
                       dry=[{"h": 1, "hm": 0, "hl": 1, "marks": [False, True, False], "kinds": [1, 0, 2], "a": lo, "pay": b"",
                             "n": 1, "ans": [True, False]},
                            {"h": 0, "hm": 0, "hl": 0, "marks": [False, False, False], "kinds": [6, 5, 3], "a": lo, "pay": b"",
                             "n": 0, "ans": [False, False]}],
                       doc={"S": ["h,hm,hl: hidden depths (unbounded ints)", "n: hidden memo size (unbounded)",
                                  "a: opcode argument in [%d,%d]" % (lo, hi), "ans: memo membership answers", "pay: payload byte(s)"],
                            "F": ["marks: mark flags of <=3 window slots", "kinds: slot kind pairs (lazily pinned) from %s" % [KIND_NAMES[k] for k in ACTIVE_KINDS]],
                            "bound": "window W=3 slots; operand access below the window is outside"}))
    L.append(Lemma("trace_passive", trace_passive, timeout=200 if q else 600, dry=[{"i": 1, "x": 5}],
                   doc={"F": ["x: a BININT1 value (0..3) pushed and popped in front of every program", "%d programs covering every supported opcode family" % len(TRACE_PROGS)],
                        "bound": "listed programs"}))
    L.append(Lemma("trace_stepwise", trace_stepwise, timeout=120, dry=[{"i": 1}],
                   doc={"F": ["%d programs" % len(TRACE_PROGS)], "bound": "listed programs; no symbolic dimension (state equality per step)"}))
    L.append(Lemma("natural_lockstep", natural_lockstep, timeout=120, dry=[{"i": 7, "proto": 2}],
                   doc={"F": ["12 objects x protocols 0-5, every prefix"], "bound": "listed objects; cross-check of the induction on whole programs"}))
    L.append(Lemma("memo_gap_lockstep", memo_gap_lockstep, timeout=120, dry=[{"k": 5, "m": 1, "form": 0, "pre": 0}, {"k": 1, "m": 2, "form": 2, "pre": 1}],
                   doc={"F": ["k: key written by BINPUT/LONG_BINPUT/PUT (0..40)", "pre, m: MEMOIZEs before (0..2) and after (0..3) it", "followed by a BINGET of every key the VM holds"],
                        "bound": "one explicit write between MEMOIZEs; whole-program cross-check of step_MEMOIZE/step_*PUT on memos with gaps and collisions"}))
    return L
