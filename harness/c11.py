"""C11 - user allowlist additions do not outlive or leak beyond their activation.

Inductive lemma on the allowlist table: from the pristine ML_ALLOWLIST, ONE operation (construct an
unpickler / activate+probe / deactivate / analysis) with additions from table-derived classes leaves
the table deep-equal to the pristine snapshot and gives the instance exactly base U additions.
Short histories over activate/deactivate/construct/probe are checked against a two-variable model."""
import copy
import io
import pickle
from typing import List

import _pickle
import fickling.hook as hook
import fickling.ml as ml
from fickling.analysis import check_safety
from fickling.exception import UnsafeFileError
from fickling.fickle import Pickled
from fickling.ml import ML_ALLOWLIST, FicklingMLUnpickler

from vf import rt
from vf.engine import Lemma
from vf.symlib import native, pin

PROPERTY = "C11"
RULE = "Operation kinds, addition sets (derived from the live table) and history positions are solver-partitioned; finite-state, native after pinning."
ASSUMPTIONS = [
    "finite-state property: every variable is pinned (exhaustive partition certified by the path tree); no genuinely symbolic dimension",
    "permitted(name) is observed through FicklingMLUnpickler.find_class: UnsafeFileError = blocked, anything else (incl. ModuleNotFoundError from the real import of a fictitious module) = permitted",
    "addition classes are derived from the live table: none / new module / new member of the i-th allow-listed module / existing member / duplicate / several at once",
]

PRISTINE = copy.deepcopy(ML_ALLOWLIST)
MODS = sorted(PRISTINE)


def addition_sets():
    """table-derived addition classes"""
    out = [None, [], ["zqv_new.f"], ["zqv_new.f", "zqv_new.g"], ["zqv_pkg.sub.h"]]
    for m in MODS[:6]:
        out.append([m + ".zqv_member"])
    first = MODS[0]
    out.append([first + "." + sorted(PRISTINE[first])[0]])          # existing member
    out.append([first + ".zqv_member", first + ".zqv_member"])       # duplicate
    out.append([MODS[1] + ".zqv_a", "zqv_other.b", MODS[2] + ".zqv_c"])
    # a *different* member of a module that another set also extends (state kept per module shows only then)
    out.append([MODS[0] + ".zqv_second"])
    out.append(["zqv_new.h"])
    return out


ADDS = addition_sets()


def names_of(adds):
    return set() if not adds else {tuple(a.rsplit(".", 1)) for a in adds}


def permitted(u, module, name):
    try:
        u.find_class(module, name)
    except UnsafeFileError:
        return False
    except Exception:
        return True
    return True


def probes(adds_universe):
    ps = [("zqv_new", "f"), ("zqv_new", "g"), ("zqv_new", "h"), ("zqv_pkg.sub", "h"), ("zqv_other", "b"), ("os", "system"), ("builtins", "eval"),
          (MODS[0], "zqv_second")]
    for m in MODS[:6]:
        ps.append((m, "zqv_member"))
    ps.append((MODS[1], "zqv_a"))
    ps.append((MODS[2], "zqv_c"))
    return ps


def base_allows(module, name):
    return module in PRISTINE and name in PRISTINE[module]


def table_pristine():
    return ML_ALLOWLIST == PRISTINE and all(ML_ALLOWLIST[m] == PRISTINE[m] for m in PRISTINE)


def one_step(op: int, a: int, b: int) -> bool:
    """
    pre: 0 <= op < 4 and 0 <= a < 20 and 0 <= b < 20
    post: _
    """
    if a >= len(ADDS) or b >= len(ADDS):
        return True
    op, a, b = pin(op, 0, 3), pin(a, 0, len(ADDS) - 1), pin(b, 0, len(ADDS) - 1)
    if op in (2, 3) and b != 0:
        return True
    with native():
        return _one_step(op, a, b)


def _one_step(op, a, b):
    if not table_pristine():
        raise AssertionError("harness: table not pristine at entry")
    adds = ADDS[a]
    try:
        if op == 0:
            # construct an unpickler with additions; then one without
            u = FicklingMLUnpickler(io.BytesIO(b"N."), also_allow=adds)
            ok = _exact(u, names_of(adds))
            u2 = FicklingMLUnpickler(io.BytesIO(b"N."), also_allow=ADDS[b])
            ok = ok and _exact(u2, names_of(ADDS[b]))
            u3 = FicklingMLUnpickler(io.BytesIO(b"N."))
            ok = ok and _exact(u3, set())
        elif op == 1:
            # activate with additions, probe through pickle.loads, deactivate, activate with other additions
            try:
                hook.activate_safe_ml_environment(also_allow=adds)
                ok = _probe_env(names_of(adds))
                hook.deactivate_safe_ml_environment()
                hook.activate_safe_ml_environment(also_allow=ADDS[b])
                ok = ok and _probe_env(names_of(ADDS[b]))
            finally:
                hook.remove_hook()
            # after deactivation an unpickler built without additions permits the built-in allowlist only
            ok = ok and _exact(FicklingMLUnpickler(io.BytesIO(b"N.")), set())
        elif op == 2:
            # the static analysis consults the built-in table only: verdicts before == verdicts after using the feature
            names = sorted(names_of(adds) | {("zqv_new", "f"), (MODS[0], "zqv_member")})
            before = [check_safety(Pickled.load(("c%s\n%s\n." % (m, n)).encode())).severity.name for (m, n) in names]
            FicklingMLUnpickler(io.BytesIO(b"N."), also_allow=adds)
            try:
                hook.activate_safe_ml_environment(also_allow=adds)
            finally:
                hook.remove_hook()
            after = [check_safety(Pickled.load(("c%s\n%s\n." % (m, n)).encode())).severity.name for (m, n) in names]
            ok = before == after
        else:
            # two instances alive at once do not see each other's additions
            u1 = FicklingMLUnpickler(io.BytesIO(b"N."), also_allow=adds)
            u2 = FicklingMLUnpickler(io.BytesIO(b"N."), also_allow=["zqv_iso.x"])
            ok = _exact(u1, names_of(adds)) and _exact(u2, {("zqv_iso", "x")})
            ok = ok and not permitted(u1, "zqv_iso", "x")
    finally:
        leaked = not table_pristine()
        if leaked:
            # restore for the following paths of this worker
            ML_ALLOWLIST.clear()
            ML_ALLOWLIST.update(copy.deepcopy(PRISTINE))
    rt.reach(bool(adds))
    return ok and not leaked


def _exact(u, extra):
    for (m, n) in probes(None):
        want = base_allows(m, n) or (m, n) in extra
        if permitted(u, m, n) != want:
            return False
    # and the instance table is exactly base U extra
    got = {(m, n) for m, d in u.allowlist.items() for n in d}
    base = {(m, n) for m, d in PRISTINE.items() for n in d}
    return got == base | extra


def _probe_env(extra):
    for (m, n) in probes(None):
        want = base_allows(m, n) or (m, n) in extra
        data = ("c%s\n%s\n." % (m, n)).encode()
        for fn in (pickle.loads, _pickle.loads):
            try:
                fn(data)
                got = True
            except UnsafeFileError:
                got = False
            except Exception:
                got = True
            if got != want:
                return False
    return True


def every_module(mi: int) -> bool:
    """
    pre: 0 <= mi < 200
    post: _
    """
    # one new member for EVERY module of the live table (tables that share structure show only for the modules involved)
    if mi >= len(MODS):
        return True
    mi = pin(mi, 0, len(MODS) - 1)
    with native():
        adds = [MODS[mi] + ".zqv_only_here"]
        u = FicklingMLUnpickler(io.BytesIO(b"N."), also_allow=adds)
        rt.reach()
        got = {(m, n) for m, d in u.allowlist.items() for n in d}
        base = {(m, n) for m, d in PRISTINE.items() for n in d}
        ok = got == base | {(MODS[mi], "zqv_only_here")}
        for m in MODS:
            ok = ok and permitted(u, m, "zqv_only_here") == (m == MODS[mi])
        try:
            hook.activate_safe_ml_environment(also_allow=adds)
            for m in MODS[:3] + [MODS[mi]]:
                data = ("c%s\nzqv_only_here\n." % m).encode()
                try:
                    pickle.loads(data)
                    allowed = True
                except UnsafeFileError:
                    allowed = False
                except Exception:
                    allowed = True
                ok = ok and allowed == (m == MODS[mi])
        finally:
            hook.remove_hook()
        return ok and table_pristine()


def history(h: List[int]) -> bool:
    """
    pre: len(h) <= 4 and all(0 <= x < 14 for x in h)
    post: _
    """
    if len(h) > HMAX[0]:
        return True
    ops = []
    for x in h:
        x = pin(x, 0, 13)
        if x < 8:
            ops.append((0, x))
        elif x == 8:
            ops.append((1, 0))
        elif x < 13:
            ops.append((2, [0, 1, 2, 6][x - 9]))
        else:
            ops.append((3, 0))
    with native():
        return _history(ops)


HMAX = [3]
H_ADDS = [None, ["zqv_new.f"], [MODS[0] + ".zqv_member"], ["zqv_new.g", MODS[1] + ".zqv_a"], [], ["zqv_pkg.sub.h"],
          [MODS[0] + ".zqv_second", "zqv_other.b"], [MODS[2] + ".zqv_c"]]


def _history(ops):
    """ops: (0 activate(adds) | 1 deactivate | 2 construct(adds)+check | 3 probe env). Model = current additions or None"""
    current = None      # None = environment not active
    ok = True
    try:
        for kind, arg in ops:
            if kind == 0:
                hook.activate_safe_ml_environment(also_allow=H_ADDS[arg])
                current = names_of(H_ADDS[arg])
            elif kind == 1:
                hook.deactivate_safe_ml_environment()
                current = None
            elif kind == 2:
                u = FicklingMLUnpickler(io.BytesIO(b"N."), also_allow=H_ADDS[arg])
                ok = ok and _exact(u, names_of(H_ADDS[arg]))
            else:
                if current is not None:
                    ok = ok and _probe_env(current)
            ok = ok and table_pristine()
            if not ok:
                break
    finally:
        hook.remove_hook()
        if not table_pristine():
            ML_ALLOWLIST.clear()
            ML_ALLOWLIST.update(copy.deepcopy(PRISTINE))
            ok = False
    rt.reach(len(ops) > 1)
    return ok


def lemmas(tier):
    q = tier == "quick"
    HMAX[0] = 3 if q else 4
    return [
        Lemma("one_step", one_step, timeout=300 if q else 900, dry=[{"op": 0, "a": 5, "b": 2}, {"op": 1, "a": 2, "b": 0}, {"op": 0, "a": 5, "b": len(ADDS) - 2}, {"op": 0, "a": 2, "b": len(ADDS) - 1}],
              doc={"F": ["operation: construct / activate+probe+reactivate / analysis / two live instances", "additions a, b from %d table-derived classes" % len(ADDS)],
                   "bound": "one operation from the pristine table (inductive: the post-state is again pristine)"}),
        Lemma("every_module", every_module, timeout=300 if q else 900, dry=[{"mi": 0}, {"mi": len(MODS) // 2}],
              doc={"F": ["module: each of the %d modules of the live ML_ALLOWLIST gets one new member; the instance must permit it for that module only" % len(MODS)], "bound": "one addition"}),
        Lemma("history", history, timeout=400 if q else 1800, dry=[{"h": [2, 13, 8]}, {"h": [1, 10, 13]}, {"h": [2, 13, 8, 9]}, {"h": [11, 12]}],
              doc={"F": ["histories of length <= %d over activate(8 addition sets) / deactivate / construct(4 addition sets) / probe: 14 symbols" % HMAX[0]],
                   "bound": "length <= %d" % HMAX[0]}),
    ]
