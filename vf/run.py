import sys
from vf.engine import run_property

if __name__ == "__main__":
    prop = sys.argv[1]
    tier = sys.argv[2] if len(sys.argv) > 2 else "quick"
    sys.exit(run_property(prop, tier))
