"""Pieces the harnesses share: exhaustive pinning, pure-Python stream/struct stand-ins that keep
solver terms alive, hidden-prefix containers for inductive step lemmas."""
import contextlib
import pickle
import pickletools
import struct as _struct

from vf.rt import Hidden


# --------------------------------------------------------------------------------------------
# F-variables: solver-partitioned finite fan
def pin(x, lo, hi):
    """x: int (symbolic or concrete) with lo <= x <= hi.  Returns a concrete int; under CrossHair
    each comparison is a solver query and the path tree certifies the partition exhaustive."""
    while lo < hi:
        mid = (lo + hi) // 2
        if x <= mid:
            hi = mid
        else:
            lo = mid + 1
    return lo


def pin_bool(b):
    if b:
        return True
    return False


# --------------------------------------------------------------------------------------------
# streams
class SymStream:
    """pure-Python seekable binary stream over a (possibly symbolic) bytes value; logs calls"""

    def __init__(self, data, seekable=True):
        self.data = data
        self.pos = 0
        self.log = []
        self._seekable = seekable
        self.closed = False

    def read(self, n=-1):
        if n is None or n < 0:
            r = self.data[self.pos:]
        else:
            r = self.data[self.pos:self.pos + n]
        self.pos += len(r)
        self.log.append(("read", n))
        return r

    def readline(self):
        i = self.data.find(b"\n", self.pos)
        if i < 0:
            r = self.data[self.pos:]
        else:
            r = self.data[self.pos:i + 1]
        self.pos += len(r)
        self.log.append(("readline",))
        return r

    def readinto(self, b):
        r = self.read(len(b))
        b[:len(r)] = r
        return len(r)

    def tell(self):
        if not self._seekable:
            raise OSError("not seekable")
        return self.pos

    def seek(self, p, whence=0):
        if not self._seekable:
            raise OSError("not seekable")
        if whence == 0:
            self.pos = p
        elif whence == 1:
            self.pos += p
        else:
            self.pos = len(self.data) + p
        self.log.append(("seek", p, whence))
        return self.pos

    def seekable(self):
        return self._seekable

    def close(self):
        self.closed = True


class Collector:
    """binary sink"""

    def __init__(self):
        self.chunks = []
        self.closed = False

    def write(self, b):
        self.chunks.append(b)
        return len(b)

    def flush(self):
        pass

    def close(self):
        self.closed = True

    def getvalue(self):
        out = b""
        for c in self.chunks:
            out += c
        return out


# --------------------------------------------------------------------------------------------
# struct without the C boundary (CrossHair realises at struct.pack/unpack)
_SZ = {"b": 1, "B": 1, "h": 2, "H": 2, "i": 4, "I": 4, "q": 8, "Q": 8}


def pure_pack(fmt, *vals):
    if fmt[0] not in "<>" or any(c not in _SZ for c in fmt[1:]):
        return _struct.pack(fmt, *vals)
    order = "little" if fmt[0] == "<" else "big"
    out = b""
    if len(vals) != len(fmt) - 1:
        raise _struct.error("pack expected %d items for packing (got %d)" % (len(fmt) - 1, len(vals)))
    for c, v in zip(fmt[1:], vals):
        n = _SZ[c]
        signed = c.islower()
        if signed:
            lo, hi = -(1 << (8 * n - 1)), (1 << (8 * n - 1)) - 1
        else:
            lo, hi = 0, (1 << (8 * n)) - 1
        if not isinstance(v, int):
            raise _struct.error("required argument is not an integer")
        if v < lo or v > hi:
            raise _struct.error("argument out of range")
        out += v.to_bytes(n, order, signed=signed)
    return out


def pure_unpack(fmt, data):
    if fmt[0] not in "<>" or any(c not in _SZ for c in fmt[1:]):
        return _struct.unpack(fmt, data)
    order = "little" if fmt[0] == "<" else "big"
    res = []
    off = 0
    total = sum(_SZ[c] for c in fmt[1:])
    if len(data) != total:
        raise _struct.error("unpack requires a buffer of %d bytes" % total)
    for c in fmt[1:]:
        n = _SZ[c]
        res.append(int.from_bytes(data[off:off + n], order, signed=c.islower()))
        off += n
    return tuple(res)


class _PureStruct:
    pack = staticmethod(pure_pack)
    unpack = staticmethod(pure_unpack)
    error = _struct.error
    calcsize = staticmethod(_struct.calcsize)
    Struct = _struct.Struct


@contextlib.contextmanager
def pure_struct():
    """route fickling.fickle / pickletools / pickle through the pure-Python struct"""
    import fickling.fickle as F
    saved = (F.struct, pickletools._unpack, pickle.pack, pickle.unpack)
    F.struct = _PureStruct
    pickletools._unpack = pure_unpack
    pickle.pack = pure_pack
    pickle.unpack = pure_unpack
    try:
        yield
    finally:
        F.struct, pickletools._unpack, pickle.pack, pickle.unpack = saved


def validate_pure_struct():
    """translator validation: the stand-in agrees with C struct on boundary values"""
    n = 0
    for c, sz in _SZ.items():
        signed = c.islower()
        lo = -(1 << (8 * sz - 1)) if signed else 0
        hi = (1 << (8 * sz - 1)) - 1 if signed else (1 << (8 * sz)) - 1
        for v in {lo, lo + 1, -1 if signed else 0, 0, 1, 127, 128, 255, 256, hi - 1, hi}:
            if v < lo or v > hi:
                continue
            for e in "<>":
                f = e + c
                assert pure_pack(f, v) == _struct.pack(f, v), (f, v)
                assert pure_unpack(f, _struct.pack(f, v)) == (v,), (f, v)
                n += 1
        for v in (lo - 1, hi + 1):
            for fn in (pure_pack, _struct.pack):
                try:
                    fn("<" + c, v)
                    raise AssertionError(("no range error", c, v))
                except _struct.error:
                    pass
            n += 1
    return n


# --------------------------------------------------------------------------------------------
# opaque repr for symbolic ints/bytes (error-message formatting otherwise realises the value)
@contextlib.contextmanager
def opaque_repr():
    try:
        import crosshair.libimpl.builtinslib as BL
    except Exception:  # native run: nothing to do
        yield
        return
    saved = []
    for nm, tok in (("SymbolicInt", "<symbolic int>"), ("SymbolicBytes", "<symbolic bytes>"),
                    ("SymbolicByteArray", "<symbolic bytearray>")):
        cls = getattr(BL, nm, None)
        if cls is None:
            continue
        saved.append((cls, cls.__dict__.get("__repr__")))
        cls.__repr__ = (lambda t: (lambda self: t))(tok)
    try:
        yield
    finally:
        for cls, r in saved:
            if r is None:
                try:
                    del cls.__repr__
                except Exception:
                    pass
            else:
                cls.__repr__ = r


# --------------------------------------------------------------------------------------------
# hidden-prefix containers
class HList:
    """list-like: `h` opaque elements (h any non-negative int, symbolic) followed by an explicit
    window `tail`.  Touching the opaque part raises Hidden (path is outside the bound)."""

    def __init__(self, h, tail=()):
        self.h = h
        self.tail = list(tail)

    def __len__(self):
        return self.h + len(self.tail)

    def __bool__(self):
        return bool(self.tail) or self.h > 0

    def pop(self, i=-1):
        if i != -1 or not self.tail:
            raise Hidden()
        return self.tail.pop()

    def append(self, x):
        self.tail.append(x)

    def extend(self, xs):
        self.tail.extend(xs)

    def _ix(self, i):
        if isinstance(i, slice):
            if (i.stop is None and i.step is None and isinstance(i.start, int)
                    and i.start < 0 and -i.start <= len(self.tail)):
                return slice(i.start, None)
            raise Hidden()
        if i < 0:
            if -i > len(self.tail):
                raise Hidden()
            return i
        j = i - self.h
        if j < 0:
            raise Hidden()
        return j

    def __getitem__(self, i):
        return self.tail[self._ix(i)]

    def __setitem__(self, i, v):
        self.tail[self._ix(i)] = v

    def __delitem__(self, i):
        del self.tail[self._ix(i)]

    def __iter__(self):
        raise Hidden()

    def clear(self):
        raise Hidden()


class MemoOracle:
    """shared pre-state of a memo of opaque size n: consistent answers to 'is key k present?'
    drawn from a list of (symbolic) bools; both machines' memo views consult the same oracle"""

    def __init__(self, n, answers):
        self.n = n
        self._answers = list(answers)
        self._known = []

    def present(self, k):
        for kk, p in self._known:
            if kk == k:
                return p
        if not self._answers:
            raise Hidden()
        p = True if self._answers.pop(0) else False
        self._known.append((k, p))
        return p


class HMemo:
    """dict-like view of a hidden memo: opaque size, oracle-backed membership, explicit write log"""

    def __init__(self, oracle, value_factory):
        self.oracle = oracle
        self.writes = []          # [(key, value)] in order
        self.new_keys = 0
        self._factory = value_factory
        self._cache = []

    def _written(self, k):
        for kk, v in reversed(self.writes):
            if kk == k:
                return True, v
        return False, None

    def __len__(self):
        return self.oracle.n + self.new_keys

    def __contains__(self, k):
        return self._written(k)[0] or self.oracle.present(k)

    def __getitem__(self, k):
        w, v = self._written(k)
        if w:
            return v
        if self.oracle.present(k):
            for kk, vv in self._cache:
                if kk == k:
                    return vv
            vv = self._factory(k)
            self._cache.append((k, vv))
            return vv
        raise KeyError(k)

    def get(self, k, default=None):
        try:
            return self[k]
        except KeyError:
            return default

    def __setitem__(self, k, v):
        if not (self._written(k)[0] or self.oracle.present(k)):
            self.new_keys += 1
        self.writes.append((k, v))

    def written_keys(self):
        return [k for k, _ in self.writes]

    def __iter__(self):
        raise Hidden()

    def items(self):
        raise Hidden()

    def keys(self):
        raise Hidden()


# --------------------------------------------------------------------------------------------
@contextlib.contextmanager
def native():
    """run a region at native speed once every value flowing into it is concrete (after pin())"""
    try:
        from crosshair.tracers import NoTracing, is_tracing
    except Exception:
        yield
        return
    if is_tracing():
        with NoTracing():
            yield
    else:
        yield


def concretize(x):
    """turn CrossHair shell containers (e.g. the proxy returned for set() under tracing) back into plain Python
    values; identity when not tracing.  Only used on values that are already concrete by construction."""
    try:
        from crosshair.core import deep_realize
        from crosshair.tracers import is_tracing
    except Exception:
        return x
    if is_tracing():
        return deep_realize(x)
    return x
