"""CrossHair driver: runs every lemma of a property (main run + vacuity twin + one run per listed
known finding) on a process pool, instruments z3, replays counterexamples natively, folds the
verdicts, writes the evidence file and prints the VIOLATION / KNOWN-FINDING lines."""
import ast
import collections
import concurrent.futures as cf
import importlib
import json
import multiprocessing as mp
import os
import re
import sys
import time
import traceback
from dataclasses import dataclass, field
from typing import Any, Callable, Dict, List, Optional

VERIF = os.path.dirname(os.path.dirname(os.path.abspath(__file__)))
REPO = os.environ.get("VERIF_REPO", "/repo").rstrip("/")   # VERIF_REPO: evaluate a scratch worktree instead of /repo (seed screening only)

# evidence / replays of a screening run against a scratch worktree must not overwrite the real ones
OUT = VERIF if "VERIF_REPO" not in os.environ else os.path.join("/tmp/vf_screen", os.path.basename(REPO))

EXIT_OK, EXIT_VIOLATION, EXIT_HARNESS = 0, 1, 2


@dataclass
class Lemma:
    name: str
    fn: Callable
    timeout: float = 30.0                 # CrossHair per_condition_timeout (seconds of this worker)
    dry: List[Dict[str, Any]] = field(default_factory=list)   # concrete inputs run natively first
    replay: Optional[Callable] = None     # replay(**args) -> None (holds) | str (what failed)
    doc: Dict[str, Any] = field(default_factory=dict)         # S / F variables, bound, stubs
    twin: bool = True
    per_path: float = 60.0
    native_only: bool = False             # (not used for verdicts; dry-run style validation lemmas)


# ---------------------------------------------------------------------------------------------
def _load_findings():
    p = os.path.join(VERIF, "known_findings.json")
    if not os.path.exists(p):
        return {"findings": [], "fixed": []}
    with open(p) as f:
        return json.load(f)


def findings_for(prop, lemma=None):
    """entries of known_findings.json for a property; `lemma` may be an fnmatch pattern in the file: the key is
    excluded from every matching lemma's main run, and re-checked in the lemma named by `witness_lemma`
    (default: the `lemma` field itself when it is not a pattern)"""
    import fnmatch
    out = []
    for e in _load_findings().get("findings", []):
        if e["property"] == prop and (lemma is None or fnmatch.fnmatchcase(lemma, e.get("lemma", ""))):
            out.append(e)
    return out


def _witness(e):
    return e.get("witness_lemma") or e.get("lemma")


# ---------------------------------------------------------------------------------------------
_CALL_RE = re.compile(r"when calling (.*)$", re.S)


def parse_counterexample(message: str, fn_name: str):
    """CrossHair renders the failing call as `name(a=1, b=b'x')`; recover the kwargs."""
    m = _CALL_RE.search(message)
    if not m:
        return None
    text = m.group(1).strip()
    text = re.sub(r"\s*\(which returns .*\)\s*$", "", text, flags=re.S)
    # progressively trim until it parses
    for end in range(len(text), 0, -1):
        if text[end - 1] != ")":
            continue
        try:
            node = ast.parse(text[:end], mode="eval").body
        except SyntaxError:
            continue
        if isinstance(node, ast.Call):
            env = {}

            def ev(n):
                # CrossHair writes shared objects as `v1:=<value>` and later mentions as `v1`
                if isinstance(n, ast.NamedExpr):
                    v = ev(n.value)
                    env[n.target.id] = v
                    return v
                if isinstance(n, ast.Name) and n.id in env:
                    return env[n.id]
                if isinstance(n, (ast.List, ast.Tuple)):
                    vals = [ev(e) for e in n.elts]
                    return vals if isinstance(n, ast.List) else tuple(vals)
                return ast.literal_eval(n)

            try:
                pos = [ev(a) for a in node.args]
                kwargs = {k.arg: ev(k.value) for k in node.keywords}
            except Exception:
                return None
            return pos, kwargs
    return None


# ---------------------------------------------------------------------------------------------
class _Z3Stats:
    def __init__(self):
        self.q = collections.Counter()
        self.seconds = 0.0

    def install(self):
        import z3
        orig = z3.Solver.check
        stats = self

        def check(slf, *a, **k):
            t = time.perf_counter()
            r = orig(slf, *a, **k)
            stats.seconds += time.perf_counter() - t
            stats.q[str(r)] += 1
            return r

        z3.Solver.check = check
        self._orig = orig

    def uninstall(self):
        import z3
        z3.Solver.check = self._orig


def _profile_functions(call):
    """native run of `call` collecting the /repo functions entered"""
    seen = set()

    def prof(frame, event, arg):
        if event == "call":
            fn = frame.f_code.co_filename
            if fn.startswith(REPO + "/fickling/"):
                seen.add(fn[len(REPO) + 1:] + ":" + frame.f_code.co_qualname)

    sys.setprofile(prof)
    try:
        r = call()
    finally:
        sys.setprofile(None)
    return r, seen


def run_task(modname, lemma_name, tier, mode, fkey, known):
    """executed in a worker process"""
    t0 = time.time()
    sys.path.insert(0, VERIF)
    from vf import rt
    rt.MODE, rt.FKEY, rt.KNOWN = mode, fkey, frozenset(known)
    out = {"lemma": lemma_name, "mode": mode, "fkey": fkey}
    try:
        mod = importlib.import_module(modname)
        lem = {l.name: l for l in mod.lemmas(tier)}[lemma_name]
        functions = set()
        dry_fail = None
        if mode == "main":
            for args in lem.dry:
                rt.LAST_KEY = None
                try:
                    ok, seen = _profile_functions(lambda: lem.fn(**args))
                except rt.Hidden:
                    ok, seen = True, set()
                except Exception:
                    ok, seen = False, set()      # the lemma raising on a concrete input is a failure like any other
                functions |= seen
                if rt.LAST_KEY is None or rt.LAST_KEY not in rt.KNOWN:
                    rt.sample({"native": _jsonable(args)})
                if not ok:
                    dry_fail = args
                    break
        out["functions"] = sorted(functions)
        out["dry_runs"] = len(lem.dry) if mode == "main" else 0
        reached_native = rt.REACHED
        from crosshair.core_and_libs import analyze_function, run_checkables
        from crosshair.options import AnalysisOptionSet, DEFAULT_OPTIONS
        stats = collections.Counter()
        opts = DEFAULT_OPTIONS.overlay(AnalysisOptionSet(
            per_condition_timeout=(min(lem.timeout, 30.0) if dry_fail is not None else lem.timeout), per_path_timeout=lem.per_path, report_all=True,
            stats=stats, max_uninteresting_iterations=10 ** 9))
        zs = _Z3Stats()
        zs.install()
        rt.REACHED = 0
        rt.OUTSIDE = 0
        try:
            msgs = run_checkables(analyze_function(lem.fn, opts))
        finally:
            zs.uninstall()
        if dry_fail is not None:
            # a concrete native run already fails: that is the reproducible counterexample to report (the solver run
            # was still made; its own counterexample may depend on state accumulated across explored paths)
            # the solver run did not (yet) reach it, but a concrete native run already fails
            out.update(state="POST_FAIL", message="native dry run returned False", args=dry_fail)
        elif not msgs:
            out.update(state="NO_CONDITIONS", message="CrossHair found no contract on the lemma")
        else:
            # one condition per lemma; take the worst message
            order = ["POST_FAIL", "EXEC_ERR", "POST_ERR", "SYNTAX_ERR", "IMPORT_ERR", "PRE_UNSAT",
                     "CANNOT_CONFIRM", "CONFIRMED"]
            msgs = sorted(msgs, key=lambda m: order.index(m.state.name))
            m = msgs[0]
            out.update(state=m.state.name, message=m.message)
            if m.state.name in ("POST_FAIL", "EXEC_ERR", "POST_ERR"):
                parsed = parse_counterexample(m.message, lemma_name)
                if parsed is not None:
                    pos, kw = parsed
                    if pos:
                        import inspect
                        names = list(inspect.signature(lem.fn).parameters)
                        for n, v in zip(names, pos):
                            kw[n] = v
                    out["args"] = kw
        out.update(paths=int(stats.get("num_paths", 0)), ch_stats={k: int(v) for k, v in stats.items()},
                   z3=dict(zs.q), z3_s=round(zs.seconds, 3), reached=int(rt.REACHED),
                   reached_native=reached_native, outside=int(rt.OUTSIDE), samples=rt.SAMPLES)
        # native replay of a counterexample (same process, tracing is off now)
        if out.get("args") is not None and mode in ("main", "finding"):
            out["replay"] = _replay_fresh(modname, lemma_name, tier, mode, fkey, known, out["args"])
    except BaseException as e:  # noqa
        out.update(state="HARNESS_ERROR", message="".join(traceback.format_exception(e))[-3000:])
    out["wall"] = round(time.time() - t0, 2)
    return out


def _replay_fresh(modname, lemma_name, tier, mode, fkey, known, args):
    """replay in a fresh interpreter: state left in this worker by the exploration (caches, hooks, module globals
    of the code under test) must neither mask nor fake a reproduction"""
    import subprocess
    import tempfile
    spec = {"modname": modname, "lemma": lemma_name, "tier": tier, "mode": mode, "fkey": fkey, "known": list(known), "args": _jsonable(args)}
    with tempfile.NamedTemporaryFile("w", suffix=".json", delete=False) as f:
        json.dump(spec, f)
        path = f.name
    try:
        r = subprocess.run([sys.executable, "-c",
                            "import sys; sys.path.insert(0, %r); from vf.engine import _replay_child; _replay_child(%r)" % (VERIF, path)],
                           capture_output=True, text=True, timeout=600)
        for line in reversed(r.stdout.splitlines()):
            if line.startswith("REPLAY-RESULT "):
                return json.loads(line[len("REPLAY-RESULT "):])
        return {"reproduced": False, "what": "replay child gave no result: " + (r.stderr or r.stdout)[-400:], "via": "error"}
    except Exception as e:
        return {"reproduced": False, "what": "replay child failed: %r" % (e,), "via": "error"}
    finally:
        os.unlink(path)


def _replay_child(path):
    with open(path) as f:
        spec = json.load(f)
    sys.path.insert(0, VERIF)
    from vf import rt
    rt.MODE, rt.FKEY, rt.KNOWN = spec["mode"], spec["fkey"], frozenset(spec["known"])
    mod = importlib.import_module(spec["modname"])
    lem = {l.name: l for l in mod.lemmas(spec["tier"])}[spec["lemma"]]
    r = _replay(lem, _unjson(spec["args"]))
    r["via"] = r.get("via", "") + " (fresh interpreter)"
    print("REPLAY-RESULT " + json.dumps(r))


def _replay(lem, args):
    """returns {'reproduced': bool, 'what': str}"""
    from vf import rt
    try:
        if lem.replay is not None:
            what = lem.replay(**args)
            return {"reproduced": what is not None, "what": what or "", "via": "custom replay (public API)"}
        try:
            ok = lem.fn(**args)
        except rt.Hidden:
            return {"reproduced": False, "what": "outside bound natively", "via": "native lemma"}
        except rt.VacuityWitness:
            return {"reproduced": False, "what": "twin", "via": "native lemma"}
        except Exception as e:
            return {"reproduced": True, "what": "raised %s: %s" % (type(e).__name__, str(e)[:300]),
                    "via": "native lemma"}
        return {"reproduced": not ok, "what": "" if ok else "lemma returns False on the concrete input",
                "via": "native lemma"}
    except BaseException as e:  # noqa
        return {"reproduced": False, "what": "replay crashed: %r" % (e,), "via": "error"}


def _jsonable(x):
    if isinstance(x, dict):
        return {str(k): _jsonable(v) for k, v in x.items()}
    if isinstance(x, (list, tuple)):
        return [_jsonable(v) for v in x]
    if isinstance(x, (bytes, bytearray)):
        return {"bytes": bytes(x).hex()}
    if isinstance(x, (int, str, bool, float)) or x is None:
        return x
    return repr(x)


def _unjson(x):
    if isinstance(x, dict):
        if set(x) == {"bytes"}:
            return bytes.fromhex(x["bytes"])
        return {k: _unjson(v) for k, v in x.items()}
    if isinstance(x, list):
        return [_unjson(v) for v in x]
    return x


# ---------------------------------------------------------------------------------------------
def run_property(prop: str, tier: str) -> int:
    t0 = time.time()
    seed = int(os.environ.get("VERIF_SEED", "0") or 0)
    modname = "harness." + prop.lower()
    sys.path.insert(0, VERIF)
    mod = importlib.import_module(modname)
    lemmas = mod.lemmas(tier)
    workers = int(os.environ.get("VERIF_JOBS", "0") or 0) or min(16, os.cpu_count() or 4)
    tasks = []
    for lem in lemmas:
        known = [e["key"] for e in findings_for(prop, lem.name)]
        tasks.append((modname, lem.name, tier, "main", None, known))
        if lem.twin:
            tasks.append((modname, lem.name, tier, "twin", None, known))
        for e_ in findings_for(prop, lem.name):
            if _witness(e_) == lem.name:
                tasks.append((modname, lem.name, tier, "finding", e_["key"], known))
    results = []
    ctx = mp.get_context("spawn")
    with cf.ProcessPoolExecutor(max_workers=workers, mp_context=ctx) as ex:
        futs = {ex.submit(run_task, *t): t for t in tasks}
        for f in cf.as_completed(futs):
            t = futs[f]
            try:
                results.append(f.result())
            except BaseException as e:  # noqa
                results.append({"lemma": t[1], "mode": t[3], "fkey": t[4], "state": "HARNESS_ERROR",
                                "message": repr(e), "wall": 0})
    return _fold(prop, tier, seed, mod, lemmas, results, time.time() - t0)


def _fold(prop, tier, seed, mod, lemmas, results, wall):
    by = collections.defaultdict(dict)
    for r in results:
        by[r["lemma"]][(r["mode"], r.get("fkey"))] = r
    exit_code = EXIT_OK
    lines = []
    notes = []
    violations = 0
    harness_errors = []
    lemma_evidence = []
    known_all = {(_witness(e), e["key"]): e for e in findings_for(prop)}
    rep_dir = os.path.join(OUT, "replays", prop)
    if os.path.isdir(rep_dir):
        for fn in os.listdir(rep_dir):
            os.unlink(os.path.join(rep_dir, fn))
    n_rep = 0
    tot = collections.Counter()
    functions = set()
    samples = []
    for lem in lemmas:
        rs = by[lem.name]
        main = rs.get(("main", None), {"state": "MISSING"})
        twin = rs.get(("twin", None)) if lem.twin else None
        ev = {"lemma": lem.name, "state": main.get("state"), "paths": main.get("paths", 0),
              "exhausted": main.get("state") == "CONFIRMED", "z3": main.get("z3", {}),
              "z3_seconds": main.get("z3_s", 0.0), "wall_s": main.get("wall", 0),
              "reached_assertion_paths": main.get("reached", 0), "outside_bound_paths": main.get("outside", 0),
              "native_dry_runs": main.get("dry_runs", 0), "timeout_s": lem.timeout}
        ev.update(lem.doc)
        functions |= set(main.get("functions", []))
        for s in main.get("samples", []):
            if len(samples) < 40:
                samples.append({"lemma": lem.name, **s} if isinstance(s, dict) else {"lemma": lem.name, "case": s})
        st = main.get("state")
        tot["paths"] += main.get("paths", 0)
        tot["reached"] += main.get("reached", 0) + main.get("reached_native", 0)
        tot["reached_native_extra"] += max(0, main.get("reached_native", 0) - main.get("dry_runs", 0))
        for k, v in main.get("z3", {}).items():
            tot["z3_" + k] += v
        tot["z3_ms"] += int(1000 * main.get("z3_s", 0.0))
        tot["obligations"] += 1
        if st == "CONFIRMED":
            tot["discharged"] += 1
        elif st == "CANNOT_CONFIRM":
            tot["inconclusive"] += 1
        elif st in ("POST_FAIL", "EXEC_ERR", "POST_ERR"):
            rp = main.get("replay")
            if main.get("message") == "native dry run returned False":
                rp = {"reproduced": True, "what": "native dry run of the lemma returns False", "via": "native lemma"}
            if rp and rp.get("reproduced"):
                os.makedirs(rep_dir, exist_ok=True)
                n_rep += 1
                path = os.path.join(rep_dir, "%s-%d.json" % (lem.name, n_rep))
                with open(path, "w") as f:
                    json.dump({"property": prop, "module": "harness." + prop.lower(), "lemma": lem.name, "tier": tier,
                               "args": _jsonable(main.get("args")), "message": main.get("message", "")[:2000],
                               "what": rp.get("what"), "via": rp.get("via"),
                               "rerun": "bin/replay %s" % path}, f, indent=1)
                lines.append("VIOLATION property=%s replay=%s" % (prop, path))
                lines.append("  lemma=%s args=%r what=%s" % (lem.name, main.get("args"), rp.get("what")))
                violations += 1
                exit_code = max(exit_code, EXIT_VIOLATION)
            else:
                harness_errors.append("%s: counterexample did not reproduce natively (%s): %s" % (
                    lem.name, (rp or {}).get("what"), main.get("message", "")[:500]))
        else:
            harness_errors.append("%s: %s %s" % (lem.name, st, main.get("message", "")[:1500]))
        if twin is not None:
            tw_ok = twin.get("state") in ("EXEC_ERR", "POST_ERR") and "VacuityWitness" in twin.get("message", "")
            ev["vacuity_twin"] = "refuted (assertion site reachable)" if tw_ok else "NOT refuted: " + str(twin.get("state"))
            ev["vacuous"] = not tw_ok
            if tw_ok and twin.get("args") is not None and len(samples) < 40:
                samples.append({"lemma": lem.name, "twin_witness": _jsonable(twin.get("args"))})
            covered = any(_witness(e_) == lem.name and (rs.get(("finding", e_["key"]), {}).get("replay") or {}).get("reproduced")
                          for e_ in findings_for(prop, lem.name))
            if not tw_ok and st == "CONFIRMED" and covered:
                ev["vacuity_twin"] = "main run is empty: every input of this lemma belongs to a listed known finding (which still fails)"
                ev["vacuous"] = False
            elif not tw_ok and st == "CONFIRMED":
                harness_errors.append("%s: vacuous (twin %s: %s)" % (lem.name, twin.get("state"), twin.get("message", "")[:300]))
        # known findings
        for (lname, key), e in known_all.items():
            if lname != lem.name:
                continue
            fr = rs.get(("finding", key), {"state": "MISSING"})
            fst = fr.get("state")
            rec = {"key": key, "state": fst}
            if fst in ("POST_FAIL", "EXEC_ERR", "POST_ERR") and (fr.get("replay") or {}).get("reproduced"):
                lines.append("KNOWN-FINDING: property=%s %s [%s] still fails: args=%r" % (prop, e["what"], key, fr.get("args")))
                rec["still_fails"] = True
            elif fst in ("CONFIRMED",):
                rec["still_fails"] = False
                notes.append("NOTE: listed finding %s [%s] no longer fails in %s (nothing is suppressed by it any more)" % (prop, key, lem.name))
            elif fst == "CANNOT_CONFIRM":
                rec["still_fails"] = None
            elif fst == "PRE_UNSAT":
                rec["still_fails"] = False
            else:
                harness_errors.append("%s finding %s: %s %s" % (lem.name, key, fst, fr.get("message", "")[:800]))
            ev.setdefault("known_findings", []).append(rec)
            tot["paths"] += fr.get("paths", 0)
        lemma_evidence.append(ev)
    if harness_errors and exit_code == EXIT_OK:
        exit_code = EXIT_HARNESS
    # ---- evidence
    level = getattr(mod, "LEVEL", "model_checking")
    evidence = {
        "property_id": prop, "tier": tier, "seed": seed, "level": level,
        "coverage": {
            # CrossHair paths + native dry runs + programs executed inside cells beyond the first of each path
            "evaluations": int(tot["paths"]) + sum(e.get("native_dry_runs", 0) for e in lemma_evidence)
                           + sum(max(0, e.get("reached_assertion_paths", 0) - e.get("paths", 0)) for e in lemma_evidence)
                           + int(tot["reached_native_extra"]),
            "distinct_nontrivial": int(tot["reached"]),
            "rule": getattr(mod, "RULE", "") + " | evaluations = CrossHair execution paths (each a distinct "
                    "solver-feasible branch history over the symbolic inputs) plus native dry runs plus, for cell lemmas, the "
                    "programs executed inside each cell; non-trivial = a distinct path or distinct program of a cell that "
                    "reached the lemma's assertion site (rt.reach) with its premise true.",
            "samples": samples or [{"note": "no sample recorded"}],
            "exhaustive": all(e["exhausted"] for e in lemma_evidence) and not harness_errors,
            "obligations": int(tot["obligations"]), "discharged": int(tot["discharged"]),
            "inconclusive_lemmas": int(tot["inconclusive"]),
            "engine": "CrossHair 0.0.110 symbolic execution of /repo's current source, z3 (python wheel)",
            "z3_queries": {k[3:]: v for k, v in tot.items() if k.startswith("z3_") and k != "z3_ms"},
            "z3_seconds": tot["z3_ms"] / 1000.0,
            "functions_encoded": sorted(functions),
            "lemmas": lemma_evidence,
            "harness_errors": harness_errors,
        },
        "assumptions": list(getattr(mod, "ASSUMPTIONS", [])),
        "wall_s": round(wall, 2),
        "violations": violations,
    }
    os.makedirs(os.path.join(OUT, "evidence"), exist_ok=True)
    with open(os.path.join(OUT, "evidence", prop + ".json"), "w") as f:
        json.dump(evidence, f, indent=1, default=repr)
    # ---- report
    for ev in lemma_evidence:
        print("%-34s %-14s paths=%-6d reached=%-6d outside=%-4d z3=%s/%.1fs wall=%.1fs %s" % (
            ev["lemma"], ev["state"], ev["paths"], ev["reached_assertion_paths"], ev["outside_bound_paths"],
            sum(ev["z3"].values()) if ev["z3"] else 0, ev["z3_seconds"], ev["wall_s"],
            ev.get("vacuity_twin", "")))
    for h in harness_errors:
        print("HARNESS-ERROR: " + h)
    for l in lines:
        print(l)
    for l in notes:
        print(l)
    print("property=%s tier=%s exit=%d wall=%.1fs obligations=%d discharged=%d inconclusive=%d" % (
        prop, tier, exit_code, wall, tot["obligations"], tot["discharged"], tot["inconclusive"]))
    return exit_code


def replay_file(path):
    with open(path) as f:
        rec = json.load(f)
    sys.path.insert(0, VERIF)
    mod = importlib.import_module(rec["module"])
    lem = {l.name: l for l in mod.lemmas(rec.get("tier", "quick"))}[rec["lemma"]]
    r = _replay(lem, _unjson(rec["args"]))
    print(json.dumps(r, indent=1))
    return 1 if r["reproduced"] else 0
