"""Vocabulary harvested from the live tree on every run: names that the analysis special-cases arrive
in the domain by themselves (a change that adds a special case adds its own test input)."""
import ast
import os
import re
import sys

REPO = os.path.join(os.environ.get("VERIF_REPO", "/repo").rstrip("/"), "fickling")
FILES = ["fickle.py", "analysis.py", "ml.py", "hook.py", "cli.py", "loader.py"]
IDENT = re.compile(r"^[A-Za-z_][A-Za-z0-9_]*(\.[A-Za-z_][A-Za-z0-9_]*)*$")

BUILTIN_FAMILY = ("builtins", "__builtin__", "__builtins__")
BAD_BUILTINS = ("eval", "exec", "compile", "open")
DANGEROUS = ("os", "posix", "nt", "subprocess", "sys", "socket", "shutil", "urllib", "torch.hub", "dill", "code")


def literals(files=None):
    """every str literal that looks like a (dotted) identifier, and every dict key of the tables"""
    out = set()
    for fn in (files or FILES):
        p = os.path.join(REPO, fn)
        if not os.path.exists(p):
            continue
        try:
            tree = ast.parse(open(p).read())
        except SyntaxError:
            continue
        for node in ast.walk(tree):
            if isinstance(node, ast.Constant) and isinstance(node.value, str):
                v = node.value
                if 0 < len(v) <= 60 and IDENT.match(v):
                    out.add(v)
                elif v.endswith("(") and IDENT.match(v[:-1]):
                    out.add(v[:-1])        # "eval(" style prefixes used by the rules
    return out


def live_tables():
    import fickling.analysis as A
    import fickling.ml as ml
    mods, attrs = set(), set()
    mods |= set(A.UnsafeImportsML.UNSAFE_MODULES)
    for m, d in A.UnsafeImportsML.UNSAFE_IMPORTS.items():
        mods.add(m)
        attrs |= set(d)
    attrs |= set(A.BadCalls.BAD_CALLS)
    for m, d in ml.ML_ALLOWLIST.items():
        mods.add(m)
        if m in ("torch", "torch.storage", "numpy", "__main__", "_codecs", "builtins"):
            attrs |= set(list(d)[:3])
    return mods, attrs


def is_dangerous(module):
    return any(module == d or module.startswith(d + ".") for d in DANGEROUS)


def is_builtin_family(module):
    return module in BUILTIN_FAMILY


def is_nonstd(module):
    """ground truth independent of the stdlib_list package: CPython's own stdlib_module_names"""
    if is_builtin_family(module):
        return False
    top = module.split(".")[0]
    return top not in sys.stdlib_module_names


def vocabulary():
    """returns (modules, attributes): harvested + labelled fresh names"""
    lits = literals()
    tmods, tattrs = live_tables()
    modules = set(tmods)
    attrs = set(tattrs)
    for v in lits:
        if "." in v:
            modules.add(v)
        elif v in sys.stdlib_module_names or v in ("torch", "numpy", "dill"):
            modules.add(v)
    # attribute names: literals of the rule files only (opcode/class names of fickle.py are not attribute special cases)
    for v in literals(["analysis.py", "loader.py", "hook.py"]):
        if "." not in v and not v.isupper() and len(v) > 1:
            attrs.add(v)
    src = open(os.path.join(REPO, "fickle.py")).read()
    for v in re.findall(r'"([A-Za-z_][A-Za-z0-9_]*)"\s+in\s+\(n\.name', src):
        attrs.add(v)
    # fresh names of every label
    modules |= {"builtins", "__builtin__", "__builtins__", "os", "os.path", "posix", "nt", "subprocess", "sys", "socket", "shutil",
                "urllib", "urllib.request", "torch.hub", "torch.hub.sub", "dill", "dill.source", "code", "collections", "datetime",
                "zqv_pkg", "zqv_pkg.sub", "numpy", "torch", "zqv_os", "osx"}
    attrs |= {"eval", "exec", "compile", "open", "getattr", "__import__", "print", "len", "system", "OrderedDict", "zqv_f",
              "load", "evaluate", "open_", "Popen"}
    # modules compiled into the interpreter (fickle.py consults sys.builtin_module_names) and stdlib packages with
    # submodules that are normally not imported yet
    modules |= set(sys.builtin_module_names)
    modules |= {"this.zen", "chunk.zqv", "encodings.cp037", "xml.dom.minidom", "platform", "unittest.mock", "importlib"}
    # GLOBAL's text format cannot carry spaces/newlines: excluded (stated bound)
    modules = sorted(m for m in modules if IDENT.match(m))
    attrs = sorted(a for a in attrs if IDENT.match(a) and "." not in a and not a.startswith("__") or a in ("__import__",))
    return modules, attrs
