"""Reference semantics = CPython's own pure-Python unpickler (pickle._Unpickler), driven opcode by
opcode, with find_class / persistent_load returning inert logging stubs.  Also: canonical forms,
inert worlds for executing decompiled programs, and the lazily materialised window slots used by
the step lemmas."""
import ast
import builtins
import io
import pickle
import types
from collections import Counter

from fickling.fickle import MarkObject

from vf.rt import Hidden
from vf.symlib import SymStream, pin

BUILTIN_FAMILY = ("builtins", "__builtin__", "__builtins__")


# ---------------------------------------------------------------------------------------------
# inert worlds
def make_world():
    """returns (log, stub) where stub(module, name) is an inert class whose construction, call,
    __setstate__ and container-style mutation are appended to log"""
    log = []
    registry = {}

    class Meta(type):
        def __call__(cls, *a, **k):
            log.append(("invoke", cls._id, canon(a), canon(k)))
            obj = object.__new__(cls)
            obj._args, obj._kw, obj._state = a, k, []
            return obj

        def __repr__(cls):
            return "<stub %s.%s>" % cls._id

    class Base(metaclass=Meta):
        _id = None

        def __new__(cls, *a, **k):  # reached through cls.__new__(cls, *args) (NEWOBJ / NEWOBJ_EX)
            log.append(("invoke", cls._id, canon(a), canon(k)))
            obj = object.__new__(cls)
            obj._args, obj._kw, obj._state = a, k, []
            return obj

        def __call__(self, *a, **k):
            log.append(("invoke-instance", id_of(self), canon(a), canon(k)))
            return self

        def __setstate__(self, st):
            log.append(("setstate", id_of(self), canon(st)))
            self._state.append(("setstate", st))

        def __reduce_ex__(self, p):
            raise TypeError("stub")

        def append(self, x):
            log.append(("method", id_of(self), "append", canon(x)))
            self._state.append(("append", x))

        def extend(self, xs):
            xs = list(xs)
            if not xs:
                return      # extending by nothing is not an observable state change (the VM skips the call)
            log.append(("method", id_of(self), "extend", canon(xs)))
            self._state.append(("extend", xs))

        def __setitem__(self, k, v):
            log.append(("method", id_of(self), "setitem", canon(k), canon(v)))
            self._state.append(("setitem", k, v))

        def add(self, v):
            log.append(("method", id_of(self), "add", canon(v)))
            self._state.append(("add", v))

        def update(self, *a, **k):
            if not k and all(not x for x in a):
                return      # updating with nothing is not an observable state change (the VM skips the call)
            log.append(("method", id_of(self), "update", canon(a), canon(k)))
            self._state.append(("update", a, k))

    def stub(module, name):
        if module in BUILTIN_FAMILY:
            module = "builtins"
        key = (module, name)
        if key not in registry:
            registry[key] = Meta(name, (Base,), {"_id": key})
        return registry[key]

    return log, stub


def id_of(o):
    return getattr(type(o), "_id", None)


def canon_shared(v, seen=None):
    """structural canonical form WITH sharing: container identity numbered in traversal order (kept for reference;
    the oracles compare by value, see vcanon)"""
    if seen is None:
        seen = {}
    if v is None:
        return ("NoneType", None)
    if isinstance(v, bool):
        return ("bool", v)
    if isinstance(v, int):
        return ("int", v)          # the value itself, so that symbolic ints stay solver terms
    if isinstance(v, float):
        return ("float", repr(v))  # repr distinguishes -0.0 and nan
    if isinstance(v, str):
        return ("str", v)
    if isinstance(v, bytes):
        return ("bytes", v)
    if isinstance(v, bytearray):
        return ("bytearray", bytes(v))
    if isinstance(v, type) and hasattr(v, "_id"):
        return ("global", v._id)
    if id(v) in seen:
        return ("ref", seen[id(v)])
    if isinstance(v, tuple):
        return ("tuple", tuple(canon_shared(x, seen) for x in v))
    if isinstance(v, frozenset):
        return ("frozenset", tuple(sorted(repr(canon_shared(x, {})) for x in v)))
    seen[id(v)] = len(seen)
    me = seen[id(v)]
    if isinstance(v, list):
        return ("list", me, tuple(canon_shared(x, seen) for x in v))
    if isinstance(v, dict):
        return ("dict", me, tuple((canon_shared(k, seen), canon_shared(x, seen)) for k, x in v.items()))
    if isinstance(v, set):
        return ("set", me, tuple(sorted(repr(canon_shared(x, {})) for x in v)))
    if hasattr(type(v), "_id"):
        return ("obj", me, type(v)._id, canon_shared(v._args, seen), canon_shared(v._kw, seen), canon_shared(v._state, seen))
    return ("other", type(v).__name__)


def vcanon(v, _active=None):
    """canonical form by VALUE only: a shared sub-object is expanded at every occurrence (two references to one list and
    two equal lists compare equal); only cycles are cut"""
    if _active is None:
        _active = []
    if v is None:
        return ("NoneType", None)
    if isinstance(v, bool):
        return ("bool", v)
    if isinstance(v, int):
        return ("int", v)
    if isinstance(v, float):
        return ("float", repr(v))
    if isinstance(v, str):
        return ("str", v)
    if isinstance(v, bytes):
        return ("bytes", v)
    if isinstance(v, bytearray):
        return ("bytearray", bytes(v))
    if isinstance(v, type) and hasattr(v, "_id"):
        return ("global", v._id)
    if any(v is a for a in _active):
        return ("cycle",)
    _active.append(v)
    try:
        if isinstance(v, tuple):
            return ("tuple", tuple(vcanon(x, _active) for x in v))
        if isinstance(v, frozenset):
            return ("frozenset", tuple(sorted(repr(vcanon(x, _active)) for x in v)))
        if isinstance(v, list):
            return ("list", tuple(vcanon(x, _active) for x in v))
        if isinstance(v, dict):
            return ("dict", tuple((vcanon(k, _active), vcanon(x, _active)) for k, x in v.items()))
        if isinstance(v, set):
            return ("set", tuple(sorted(repr(vcanon(x, _active)) for x in v)))
        if hasattr(type(v), "_id"):
            return ("obj", type(v)._id, vcanon(v._args, _active), vcanon(v._kw, _active), vcanon(v._state, _active))
        return ("other", type(v).__name__)
    finally:
        _active.pop()


def canon(v):
    """the canonical form used by every oracle: by value (see vcanon)"""
    return vcanon(v)


def strip_ids(c):
    """canonical form without sharing information (value equality only)"""
    if isinstance(c, tuple):
        if c and c[0] in ("list", "dict", "set", "obj") and len(c) > 2 and isinstance(c[1], int):
            return (c[0],) + tuple(strip_ids(x) for x in c[2:])
        return tuple(strip_ids(x) for x in c)
    return c


class LoggingVM(pickle._Unpickler):
    """pure-Python reference unpickler with inert globals"""

    def __init__(self, file, log, stub):
        super().__init__(file)
        self._log, self._stub = log, stub

    def find_class(self, module, name):
        self._log.append(("import", "builtins" if module in BUILTIN_FAMILY else module, name))
        return self._stub(module, name)

    def persistent_load(self, pid):
        self._log.append(("persid", canon(pid)))
        return ("PERS", pid)

    # stepping interface --------------------------------------------------------------------
    def start(self, stack=None, metastack=None, memo=None, proto=4):
        self._unframer = pickle._Unframer(self._file_read, self._file_readline)
        self.read = self._unframer.read
        self.readinto = self._unframer.readinto
        self.readline = self._unframer.readline
        self.metastack = [] if metastack is None else metastack
        self.stack = [] if stack is None else stack
        self.append = self.stack.append
        if memo is not None:
            self.memo = memo
        self.proto = proto
        return self

    def step(self):
        key = self.read(1)
        if not key:
            raise EOFError
        pickle._Unpickler.dispatch[key[0]](self)

    def shape(self):
        """flat list of is-mark flags"""
        flat = []
        for s in self.metastack:
            flat.extend([False] * len(s))
            flat.append(True)
        flat.extend([False] * len(self.stack))
        return flat


def run_vm(data, stream=None):
    """full reference run on concrete or symbolic bytes; returns (status, value-or-error, log, vm)"""
    log, stub = make_world()
    vm = LoggingVM(stream if stream is not None else io.BytesIO(data), log, stub)
    try:
        v = vm.load()
    except Exception as e:
        return ("err", e, log, vm)
    return ("ok", v, log, vm)


def exec_decompiled(src):
    """execute decompiled source in an inert world; returns (status, result-or-error, log)"""
    log, stub = make_world()

    def imp(name, globals=None, locals=None, fromlist=(), level=0):
        if level:
            # a relative import names a sibling of the (non-existent) enclosing package, not the module the VM imports
            raise ImportError("attempted relative import with no known parent package")
        m = types.ModuleType(name)
        for n in fromlist or ():
            log.append(("import", "builtins" if name in BUILTIN_FAMILY else name, n))
            setattr(m, n, stub(name, n))
        return m

    real_names = set(n for n in dir(builtins) if not n.startswith("__"))

    class LazyBuiltins(dict):
        """every builtin name resolves to an inert stub, created on first use"""

        def __missing__(self, n):
            # any bare name denotes a builtins-family global (fickling emits no import for those), existing or not;
            # a name whose import was dropped resolves here too and is then caught by the missing import event
            v = stub("builtins", n)
            self[n] = v
            return v

    bi = LazyBuiltins()
    for n in ("True", "False", "None"):
        bi[n] = getattr(builtins, n)
    # decompiled programs build containers with literal syntax; no real builtin is ever needed
    bi["__import__"] = imp

    class UNP:
        @staticmethod
        def persistent_load(pid):
            log.append(("persid", canon(pid)))
            return ("PERS", pid)

    env = {"__builtins__": bi, "UNPICKLER": UNP}
    try:
        exec(compile(src, "<decompiled>", "exec"), env)
    except Exception as e:
        return ("execerr", e, log)
    return ("ok", env, log)


def missing_events(vm_log, dc_log):
    """multiset of VM events (imports, invocations) absent from the decompiled run"""
    def key(e):
        return repr(e)
    want = Counter(key(e) for e in vm_log if e[0] in ("import", "invoke", "invoke-instance", "persid", "setstate"))
    have = Counter(key(e) for e in dc_log)
    return want - have


# ---------------------------------------------------------------------------------------------
# window slots for step lemmas: (fickling node, VM value) pairs, materialised lazily
class _StubCls:
    """VM-side stand-in for a global: constructible, callable, state-settable"""

    def __init__(self, *a, **k):
        pass

    def __call__(self, *a, **k):
        return _StubCls()

    def __setstate__(self, s):
        pass

    def __reduce_ex__(self, p):
        raise TypeError


KIND_NAMES = ["str", "int", "empty-list", "empty-dict", "dict1", "empty-set", "empty-tuple", "tuple1",
              "global", "call-result-var", "bare-call", "bytes", "none", "var~list", "var~dict", "var~set"]
NKINDS = len(KIND_NAMES)
# kinds used by a tier: indices into the pair table (quick drops pairs that exercise no extra isinstance branch)
ACTIVE_KINDS = list(range(NKINDS))
# kinds for slots that a mark-scanning opcode merely collects (items above the topmost mark):
# str (hashable constant), empty list (unhashable), global (callable class), variable
SMALL_KINDS = [0, 2, 8, 9]


def set_active_kinds(idx):
    ACTIVE_KINDS[:] = list(idx)


def make_pair(k):
    """k concrete -> (fickling AST node, VM python value)"""
    L = ast.Load()
    if k == 0:
        return ast.Constant("s"), "s"
    if k == 1:
        return ast.Constant(7), 7
    if k == 2:
        return ast.List([], L), []
    if k == 3:
        return ast.Dict(keys=[], values=[]), {}
    if k == 4:
        return ast.Dict(keys=[ast.Constant("k")], values=[ast.Constant(1)]), {"k": 1}
    if k == 5:
        return ast.Set([]), set()
    if k == 6:
        return ast.Tuple((), L), ()
    if k == 7:
        return ast.Tuple((ast.Constant(1),), L), (1,)
    if k == 8:
        return ast.Name("f", L), _StubCls
    if k == 9:
        return ast.Name("_var0", L), _StubCls()
    if k == 10:
        return ast.Call(ast.Name("f", L), [], []), _StubCls()
    if k == 11:
        return ast.Constant(b"b"), b"b"
    if k == 12:
        return ast.Constant(None), None
    if k == 13:
        return ast.Name("_var1", L), []
    if k == 14:
        return ast.Name("_var2", L), {}
    return ast.Name("_var3", L), set()


class Slot:
    def __init__(self, is_mark, kind, small=False):
        self.is_mark = is_mark
        self.kind = kind          # symbolic int until materialised
        self.small = small
        self._pair = None

    def pair(self):
        if self._pair is None:
            table = SMALL_KINDS if self.small else ACTIVE_KINDS
            if self.kind >= len(table):
                raise Hidden()      # index outside this slot's table: not a distinct pre-state
            j = pin(self.kind, 0, len(table) - 1)
            self.kind = j
            self._pair = make_pair(table[j])
        return self._pair


class SlotList:
    """HList whose window holds Slots, materialised to one side's object on access"""

    def __init__(self, h, slots, side):
        self.h = h
        self.tail = list(slots)
        self.side = side

    def _m(self, x):
        if isinstance(x, Slot):
            if x.is_mark:
                if self.side != 0:
                    return x
                if x._pair is None:
                    x._pair = MarkObject()
                return x._pair
            return x.pair()[self.side]
        return x

    def _concrete_zero(self):
        return type(self.h) is int and self.h == 0

    def __len__(self):
        return self.h + len(self.tail)

    def __bool__(self):
        return bool(self.tail) or self.h > 0

    def pop(self, i=-1):
        if i == -1:
            if not self.tail:
                if self.h > 0:
                    raise Hidden()
                raise IndexError("pop from empty list")
            return self._m(self.tail.pop())
        if self._concrete_zero():
            return self._m(self.tail.pop(i))
        raise Hidden()

    def append(self, x):
        self.tail.append(x)

    def extend(self, xs):
        self.tail.extend(xs)

    def _ix(self, i):
        if isinstance(i, slice):
            if self._concrete_zero():
                return i
            if (i.stop is None and i.step is None and isinstance(i.start, int)
                    and i.start < 0 and -i.start <= len(self.tail)):
                return slice(i.start, None)
            raise Hidden()
        if i < 0:
            if -i > len(self.tail):
                if self.h > 0:
                    raise Hidden()
                raise IndexError("list index out of range")
            return i
        j = i - self.h
        if j < 0:
            raise Hidden()
        return j

    def __getitem__(self, i):
        j = self._ix(i)
        if isinstance(j, slice):
            return [self._m(x) for x in self.tail[j]]
        return self._m(self.tail[j])

    def __setitem__(self, i, v):
        self.tail[self._ix(i)] = v

    def __delitem__(self, i):
        del self.tail[self._ix(i)]

    def __iter__(self):
        if not self._concrete_zero():
            raise Hidden()
        return iter([self._m(x) for x in self.tail])

    def marks(self):
        """is-mark flag of every window element (fickling side)"""
        out = []
        for x in self.tail:
            if isinstance(x, Slot):
                out.append(x.is_mark)
            else:
                out.append(isinstance(x, MarkObject))
        return out


def build_states(h, hm, hl, marks, kinds, scan=False):
    """fickling-side SlotList and VM-side (stack, metastack) over the same window.
    scan=True: the opcode collects everything above the topmost mark; those slots use SMALL_KINDS"""
    marks = [bool(m) for m in marks]
    last = max([i for i, m in enumerate(marks) if m], default=-1)
    slots = [Slot(m, k, small=(scan and i > last and last >= 0)) for i, (m, k) in enumerate(zip(marks, kinds))]
    f_stack = SlotList(h, slots, 0)
    segs = [[]]
    for s in slots:
        if s.is_mark:
            segs.append([])
        else:
            segs[-1].append(s)
    vsegs = [SlotList(hl if i == 0 else 0, seg, 1) for i, seg in enumerate(segs)]
    metastack = SlotList(hm, vsegs[:-1], 1)
    return f_stack, vsegs[-1], metastack


def vm_window_shape(vm):
    out = []
    for seg in vm.metastack.tail:
        out.extend([False] * len(seg.tail if isinstance(seg, SlotList) else seg))
        out.append(True)
    s = vm.stack
    out.extend([False] * len(s.tail if isinstance(s, SlotList) else s))
    return out


def adump(n):
    """structural dump of an AST that also descends into tuples (ast.dump does not) and never
    consumes one-shot iterators"""
    if isinstance(n, ast.AST):
        return (type(n).__name__,) + tuple((f, adump(getattr(n, f, None))) for f in n._fields)
    if isinstance(n, (list, tuple)):
        return tuple(adump(x) for x in n)
    if isinstance(n, (str, bytes, int, float, bool, type(None), complex)) or n is Ellipsis:
        return (type(n).__name__, repr(n))
    return ("<%s>" % type(n).__name__,)
