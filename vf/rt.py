"""Run-time switches shared by the engine and the harnesses (one worker process = one mode).

MODE
  main     the lemma is checked; inputs whose finding-key is listed in known_findings.json
           are excluded (they are checked by the dedicated `finding` run instead)
  twin     vacuity twin: `reach()` raises, so CrossHair must *refute* the twin; a twin that is
           confirmed means the assertion site is unreachable (vacuous harness)
  finding  only inputs whose finding-key equals FKEY are kept; the lemma is expected to fail
"""
MODE = "main"
FKEY = None
KNOWN = frozenset()      # finding keys listed for the current lemma
REACHED = 0              # paths (or native runs) that got to an assertion site
OUTSIDE = 0              # paths that left the stated bound (Hidden etc.)
SAMPLES = []             # concrete descriptions of explored cases (native dry runs, twin witness)
LAST_KEY = None          # finding key classified on the current path (for reporting)


class VacuityWitness(Exception):
    """raised by reach() in twin mode: the assertion site is reachable"""


class Hidden(BaseException):
    """the code looked below the explicit window of a hidden-prefix object: outside the bound"""


def reach(premise=True):
    """mark the assertion site; premise = the interesting hypothesis holds on this path"""
    global REACHED
    if premise:
        REACHED += 1
        if MODE == "twin":
            raise VacuityWitness()


def outside():
    global OUTSIDE
    OUTSIDE += 1


def skip(key):
    """True if an input classified as `key` is not this run's business"""
    global LAST_KEY
    LAST_KEY = key
    if MODE == "finding":
        return key != FKEY
    return key in KNOWN


def sample(x):
    if len(SAMPLES) < 12:
        SAMPLES.append(x)
