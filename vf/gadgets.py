"""Assembler for labelled gadget programs: resolve a global through every global-resolving opcode,
optionally call it through every call-making opcode, and dispose of the value in every way.
Ground truth about what a program does comes from the reference VM's event log, not from here."""

RESOLVE = ["GLOBAL", "STACK_GLOBAL/short", "STACK_GLOBAL/binunicode", "STACK_GLOBAL/unicode", "STACK_GLOBAL/memo", "INST", "GLOBAL/memo-overwrite"]
CALL = ["none", "REDUCE/mark-tuple", "REDUCE/tuple1", "REDUCE/empty", "OBJ", "NEWOBJ", "NEWOBJ_EX", "computed"]      # gadget() also knows 8 = OBJ without arguments
FATE = ["result", "pop+none", "build", "append", "dictvalue", "dup+pop", "memoize+pop+none", "memoize+pop+get", "below-result"]
MEMO_RT = ["none", "binput+pop+binget", "put+pop+get"]
HEADER = [b"", b"\x80\x02", b"\x80\x04"]


def sbu(s):
    b = s.encode("utf-8")
    return b"\x8c" + bytes([len(b)]) + b


def bu(s):
    b = s.encode("utf-8")
    return b"X" + len(b).to_bytes(4, "little") + b


def strarg(arg):
    return bu(arg)


def resolve(kind, module, name, mkey=7):
    """bytes that leave the resolved global on top of the stack (INST is handled by call())"""
    if kind == 0:
        return ("c%s\n%s\n" % (module, name)).encode()
    if kind == 1:
        return sbu(module) + sbu(name) + b"\x93"
    if kind == 2:
        return bu(module) + bu(name) + b"\x93"
    if kind == 3:
        return b"V" + module.encode() + b"\nV" + name.encode() + b"\n\x93"
    if kind == 4:
        # operands parked in the memo first
        return (sbu(module) + b"q" + bytes([mkey]) + b"0" + sbu(name) + b"q" + bytes([mkey + 1]) + b"0"
                + b"h" + bytes([mkey]) + b"h" + bytes([mkey + 1]) + b"\x93")
    if kind == 6:
        # a benign global parked at memo key 1, then overwritten by MEMOIZE (which stores at len(memo) == 1) with the
        # real global, then fetched back: the VM gets the real one (requires an empty memo before the gadget)
        return (b"ccollections\nOrderedDict\nq\x010" + ("c%s\n%s\n" % (module, name)).encode() + b"\x940h\x01")
    raise ValueError(kind)


def gadget(rk, mrt, ck, module, name, arg="a", mkey=3):
    """returns bytes leaving ONE value (the call result, or the global if ck == none) on the stack, or None if the
    combination does not exist (INST always calls; computed callee ignores the resolve kind)"""
    a = strarg(arg)
    if ck == 7:
        if rk != 0 or mrt != 0:
            return None
        # getattr(__import__(module), name)(arg)
        return (b"c__builtin__\ngetattr\n(c__builtin__\n__import__\n(" + strarg(module) + b"tR" + strarg(name) + b"tR("
                + a + b"tR")
    if rk == 5:
        if ck not in (0, 1) or mrt != 0:
            return None
        # INST: resolve + call in one opcode (ck none = no args, ck 1 = one arg)
        return b"(" + (a if ck == 1 else b"") + ("i%s\n%s\n" % (module, name)).encode()
    g = resolve(rk, module, name)
    if mrt == 1:
        g += b"q" + bytes([mkey]) + b"0h" + bytes([mkey])
    elif mrt == 2:
        g += b"p" + str(300 + mkey).encode() + b"\n0g" + str(300 + mkey).encode() + b"\n"
    if ck == 0:
        return g
    if ck == 1:
        return g + b"(" + a + b"tR"
    if ck == 2:
        return g + a + b"\x85R"
    if ck == 3:
        return g + b")R"
    if ck == 4:
        return b"(" + g + a + b"o"
    if ck == 5:
        return g + a + b"\x85\x81"
    if ck == 6:
        return g + a + b"\x85}\x92"
    if ck == 8:
        return b"(" + g + b"o"             # OBJ without arguments
    raise ValueError(ck)


def with_fate(g, fk, mkey=9):
    """wrap gadget bytes so that its value meets the given fate; the program's result is whatever ends on top"""
    if fk == 0:
        return g
    if fk == 1:
        return g + b"0N"
    if fk == 2:
        return g + b"}b"
    if fk == 3:
        return b"]" + g + b"a"
    if fk == 4:
        return b"}" + sbu("k") + g + b"s"
    if fk == 5:
        return g + b"20"
    if fk == 6:
        return g + b"\x94" + b"0N"
    if fk == 7:
        return g + b"q" + bytes([mkey]) + b"0N0h" + bytes([mkey])
    if fk == 8:
        return g + b"N"
    raise ValueError(fk)


BENIGN = [b"", b"K\x01" + b"0", b"]q\x14(K\x01K\x02e0", b"}q\x15" + b"0", b"\x8c\x05hello\x940"]


def program(header, pre, g, post):
    """header | benign data pushed and popped | gadget-with-fate | benign data below? no: after, popped | STOP"""
    return HEADER[header] + BENIGN[pre] + g + _post(post) + b"."


def _post(k):
    # benign data built after the gadget and discarded, so the gadget's value (or None) is still the result
    return [b"", b"K\x05" + b"0", b"(K\x01K\x02l0"][k]
